// Voting-power family driver (ctx-mode): executes TLC-generated behaviours of MC_VotingPower on
// the real keepers of a full ExocoreApp and records, after every event, the projection that
// spec/Trace_VotingPower.tla needs to decide property C05:
//
//	pools (amt, tsh, osh), latest stored oracle price round per asset, AVS infos, opt-in records,
//	the raw USD-value stores of x/operator (per (AVS, operator) and per AVS), and what the
//	exported getters answer: GetOperatorOptedUSDValue, GetAVSUSDValue, GetVotePowerForChainID.
//
// Events:
//
//	Deposit / Delegate / Undelegate / Associate / Dissociate / Slash  keeper level, as in ledger.go
//	OptIn / OptOut        operator MESSAGE SERVER (OptIntoAVS / OptOutOfAVS); `form` selects how the
//	                      AVS address is spelled in the request: "canon" = the string stored in the
//	                      AVS info, "alt" = the same address in the other letter case
//	KeyRemovalDone        operator.CompleteOperatorKeyRemovalForChainID (what dogfood's EndBlock does
//	                      when an opt-out matures; EndBlock itself is not run in ctx-mode)
//	SetPrice              a new price round written through oracle.SetPrices (C12 owns real rounds)
//	EpochEnd              block time moved just past the end of the current epoch of an identifier and
//	                      app.BeginBlocker run on the context: the real epochs -> operator hook fires
package main

import (
	"encoding/json"
	"flag"
	"fmt"
	"math/big"
	"math/rand"
	"runtime/debug"
	"sort"
	"strings"
	"time"

	sdkmath "cosmossdk.io/math"
	abci "github.com/cometbft/cometbft/abci/types"
	sdk "github.com/cosmos/cosmos-sdk/types"
	"github.com/ethereum/go-ethereum/common"

	assetstypes "github.com/ExocoreNetwork/exocore/x/assets/types"
	avskeeper "github.com/ExocoreNetwork/exocore/x/avs/keeper"
	avstypes "github.com/ExocoreNetwork/exocore/x/avs/types"
	operatorkeeper "github.com/ExocoreNetwork/exocore/x/operator/keeper"
	operatortypes "github.com/ExocoreNetwork/exocore/x/operator/types"
	oracletypes "github.com/ExocoreNetwork/exocore/x/oracle/types"
)

type VPAsset struct {
	ID     string   `json:"id"`
	Dec    uint32   `json:"dec"`
	Price  string   `json:"price"` // genesis price ("" = no round stored)
	PDec   int32    `json:"pdec"`
	Scales []string `json:"scales"` // amount multipliers (one picked per behaviour by the seed)
	PMul   []string `json:"pmul"`   // price multipliers for SetPrice (one picked per behaviour)
	PDecs  []int32  `json:"pdecs"`  // price decimals selectable by SetPrice's `pd` index
}

type VPAvs struct {
	Assets     []string `json:"assets"`
	MinSelf    uint64   `json:"minSelf"`
	Epoch      string   `json:"epoch"`
	StartDelay int64    `json:"startDelay"` // avsB only: StartingEpoch = current + 1 + StartDelay
	Mixed      bool     `json:"mixed"`      // avsB only: address stored in EIP-55 mixed case (as the precompile does)
}

type VPWorld struct {
	Name       string    `json:"name"`
	Operators  int       `json:"operators"`
	Stakers    int       `json:"stakers"`
	Assets     []VPAsset `json:"assets"`
	Dogfood    VPAvs     `json:"dogfood"`
	AvsB       *VPAvs    `json:"avsB"`
	PreDeposit int64     `json:"preDeposit"` // model units deposited per staker and asset before the behaviour
	ModelPrec  int64     `json:"modelPrec"`
}

func runVotingPower(args []string) int {
	fs := flag.NewFlagSet("votingpower", flag.ExitOnError)
	in := fs.String("in", "", "behaviours (ndjson of event arrays)")
	out := fs.String("out", "", "trace output (ndjson)")
	seed := fs.Int64("seed", 1, "seed")
	cfgS := fs.String("cfg", "", "VPWorld JSON")
	fs.Parse(args)
	var vc VPWorld
	must(json.Unmarshal([]byte(*cfgS), &vc))
	if vc.ModelPrec == 0 {
		vc.ModelPrec = 100
	}
	rng := rand.New(rand.NewSource(*seed))

	gc := DefaultGenCfg()
	// one extra operator (the last in address order) is the genesis validator: InitChain refuses an
	// empty validator set. It is opted into the dogfood AVS from genesis and never driven.
	gc.NOperators = vc.Operators + 1
	gc.NStakers = vc.Stakers
	gc.Assets = nil
	for _, a := range vc.Assets {
		gc.Assets = append(gc.Assets, AssetCfg{ID: a.ID, Decimals: a.Dec, Price: a.Price, PriceDec: a.PDec})
	}
	gc.Validators = []ValCfg{{Op: vc.Operators, Power: 100}}
	gc.MinSelf = int64(vc.Dogfood.MinSelf)
	gc.DogfoodEpoch = vc.Dogfood.Epoch
	// dogfood's asset list is a subset of the world's assets
	gc.GenesisMut = func(w *World, gs map[string]json.RawMessage) {
		var dg map[string]json.RawMessage
		must(json.Unmarshal(gs["dogfood"], &dg))
		var params map[string]json.RawMessage
		must(json.Unmarshal(dg["params"], &params))
		ids := []string{}
		for _, a := range vc.Dogfood.Assets {
			ids = append(ids, w.AssetID[a])
		}
		bz, _ := json.Marshal(ids)
		params["asset_ids"] = bz
		pbz, _ := json.Marshal(params)
		dg["params"] = pbz
		dbz, _ := json.Marshal(dg)
		gs["dogfood"] = dbz
	}
	w := NewWorld(gc)
	vw := &vpWorld{w: w, vc: vc, avsAddr: map[string]string{"dog": w.AvsAddr}, tokenID: map[string]uint64{}, asset: map[string]VPAsset{}}
	for i, a := range vc.Assets {
		vw.tokenID[a.ID] = uint64(i + 1)
		vw.asset[a.ID] = a
	}
	vw.avsIDs = []string{"dog"}
	if vc.AvsB != nil {
		vw.registerAvsB()
		vw.avsIDs = append(vw.avsIDs, "avsB")
	}
	tw := NewTraceWriter(*out)
	defer tw.Close()

	behaviours := ReadBehaviours(*in)
	for bi, b := range behaviours {
		// a leading {"ev":"Cfg","a":{"seed":n}} makes the concretisation a function of the behaviour alone
		if len(b) > 0 && b[0].Ev == "Cfg" {
			rng = rand.New(rand.NewSource(b[0].big("seed").Int64()))
			b = b[1:]
		}
		ctx, _ := w.Ctx.CacheContext()
		d := &vpDriver{vw: vw, ctx: ctx, scale: map[string]*big.Int{}, pmul: map[string]*big.Int{}, now: w.Header.Time, keyN: bi * 1000}
		for _, a := range vc.Assets {
			d.scale[a.ID], _ = new(big.Int).SetString(a.Scales[rng.Intn(len(a.Scales))], 10)
			d.pmul[a.ID], _ = new(big.Int).SetString(a.PMul[rng.Intn(len(a.PMul))], 10)
		}
		d.predeposit()
		sc := map[string]Num{}
		for k, v := range d.scale {
			sc[k] = NB(v)
		}
		tw.Emit(map[string]interface{}{"ev": "reset", "b": bi, "scale": sc, "cfg": d.cfgJSON(), "st": d.project()})
		for _, e := range b {
			if !d.exec(e, tw) {
				break
			}
		}
	}
	fmt.Printf("votingpower: world=%s behaviours=%d events=%d\n", vc.Name, len(behaviours), tw.n)
	return 0
}

func init() { commands["votingpower"] = runVotingPower }

type vpWorld struct {
	w       *World
	vc      VPWorld
	avsAddr map[string]string // model avs id -> address string AS STORED in the AVS info
	avsIDs  []string
	tokenID map[string]uint64
	asset   map[string]VPAsset
}

// a second, non-chain AVS registered through the AVS keeper (what the avs precompile calls)
func (vw *vpWorld) registerAvsB() {
	w, b := vw.w, vw.vc.AvsB
	addr := common.BytesToAddress(h256("avsB")[:20])
	stored := strings.ToLower(addr.String())
	if b.Mixed {
		stored = addr.String()
	}
	ids := []string{}
	for _, a := range b.Assets {
		ids = append(ids, w.AssetID[a])
	}
	owner := w.OpAddrs[0].String()
	must(w.App.AVSManagerKeeper.UpdateAVSInfo(w.Ctx, &avstypes.AVSRegisterOrDeregisterParams{
		AvsName: "avsB", AvsAddress: stored, AvsOwnerAddress: []string{owner}, CallerAddress: owner,
		AssetID: ids, UnbondingPeriod: 2, MinSelfDelegation: b.MinSelf, EpochIdentifier: b.Epoch,
		SlashContractAddr: common.BytesToAddress(h256("avsB-slash")[:20]).String(),
		RewardContractAddr: common.BytesToAddress(h256("avsB-reward")[:20]).String(),
		TaskAddr: common.BytesToAddress(h256("avsB-task")[:20]).String(),
		Action: avskeeper.RegisterAction}))
	if b.StartDelay != 0 {
		info, err := w.App.AVSManagerKeeper.GetAVSInfo(w.Ctx, stored)
		must(err)
		info.Info.StartingEpoch = uint64(int64(info.Info.StartingEpoch) + b.StartDelay)
		must(w.App.AVSManagerKeeper.SetAVSInfo(w.Ctx, info.Info))
	}
	vw.avsAddr["avsB"] = stored
}

// the other spelling of the same address
func altForm(stored string) string {
	if stored == strings.ToLower(stored) {
		return common.HexToAddress(stored).String()
	}
	return strings.ToLower(stored)
}

func (vw *vpWorld) avsString(id, form string) string {
	s := vw.avsAddr[id]
	if form == "alt" {
		return altForm(s)
	}
	return s
}

// avs address string (any spelling) -> (model id, form)
func (vw *vpWorld) avsModel(s string) (string, string) {
	for _, id := range vw.avsIDs {
		st := vw.avsAddr[id]
		if s == st {
			return id, "canon"
		}
		if common.IsHexAddress(s) && common.HexToAddress(s) == common.HexToAddress(st) {
			if s == altForm(st) {
				return id, "alt"
			}
			return id, "other:" + s
		}
	}
	return "?" + s, "canon"
}

type vpDriver struct {
	vw    *vpWorld
	ctx   sdk.Context
	scale map[string]*big.Int
	pmul  map[string]*big.Int
	now   time.Time
	keyN  int
}

func (d *vpDriver) ld(asset string) *ledgerDriver {
	sc := big.NewInt(1)
	if s, ok := d.scale[asset]; ok {
		sc = s
	}
	names := []string{}
	for _, a := range d.vw.vc.Assets {
		names = append(names, a.ID)
	}
	return &ledgerDriver{w: d.vw.w, lc: LedgerCfg{Stakers: d.vw.vc.Stakers, Operators: d.vw.vc.Operators, Assets: names, BlocksPer: 1, ModelPrec: d.vw.vc.ModelPrec}, scale: sc, ctx: d.ctx}
}

func (d *vpDriver) predeposit() {
	if d.vw.vc.PreDeposit == 0 {
		return
	}
	for i := 0; i < d.vw.vc.Stakers; i++ {
		for _, a := range d.vw.vc.Assets {
			raw, _ := json.Marshal(d.vw.vc.PreDeposit)
			s, _ := json.Marshal(fmt.Sprintf("s%d", i+1))
			an, _ := json.Marshal(a.ID)
			e := BEvent{Ev: "Deposit", A: map[string]json.RawMessage{"s": s, "a": an, "x": raw}}
			must(d.ld(a.ID).call(e, map[string]interface{}{}))
		}
	}
}

func (d *vpDriver) cfgJSON() map[string]interface{} {
	w := d.vw.w
	var oord, sord, aord []string
	for i := range w.OpAddrs {
		oord = append(oord, fmt.Sprintf("o%d", i+1))
	}
	for i := range w.StAddrs {
		sord = append(sord, fmt.Sprintf("s%d", i+1))
	}
	deci := map[string]uint32{}
	for _, a := range d.vw.vc.Assets {
		aord = append(aord, a.ID)
		deci[a.ID] = a.Dec
	}
	sort.Slice(aord, func(i, j int) bool { return w.AssetID[aord[i]] < w.AssetID[aord[j]] })
	// identifiers the spec tracks: those of the AVSs plus the two every generated EpochEnd may name
	ids := map[string]bool{d.vw.vc.Dogfood.Epoch: true, "day": true, "hour": true}
	if d.vw.vc.AvsB != nil {
		ids[d.vw.vc.AvsB.Epoch] = true
	}
	var eids []string
	dur := map[string]int64{}
	for _, e := range w.App.EpochsKeeper.AllEpochInfos(d.ctx) {
		if ids[e.Identifier] {
			eids = append(eids, e.Identifier)
			dur[e.Identifier] = int64(e.Duration / time.Second)
		}
	}
	return map[string]interface{}{"oord": oord, "sord": sord, "aord": aord, "avsord": d.vw.avsIDs, "deci": deci, "eids": eids, "dur": dur, "world": d.vw.vc.Name}
}

// exec runs one event as a transaction would: on a branch of the context that is written back only
// when the event neither failed nor panicked (baseapp discards a failed DeliverTx the same way; the
// no-revert behaviour of the precompile path is the ledger family's subject, C09). It returns false
// when the behaviour must stop (a panic in BeginBlock halts the chain).
func (d *vpDriver) exec(e BEvent, tw *TraceWriter) bool {
	args := map[string]interface{}{}
	var err error
	panicked := ""
	where := ""
	outer := d.ctx
	if e.Ev == "EpochEnd" {
		outer = d.nextHeader(e, args)
	}
	cc, write := outer.CacheContext()
	d.ctx = cc
	func() {
		defer func() {
			if r := recover(); r != nil {
				panicked = fmt.Sprint(r)
				if strings.Contains(string(debug.Stack()), "x/operator/keeper.EpochsHooksWrapper.AfterEpochEnd") {
					where = "operator-epoch-hook"
				} else {
					where = "other"
				}
			}
		}()
		err = d.call(e, args)
	}()
	if err == nil && panicked == "" {
		write()
	}
	d.ctx = outer
	ev := map[string]interface{}{"ev": e.Ev, "a": args, "ok": err == nil && panicked == "", "panic": panicked != "", "st": d.project()}
	if err != nil {
		ev["err"] = err.Error()
	}
	if panicked != "" {
		ev["err"] = "PANIC: " + panicked
		ev["where"] = where
	}
	tw.Emit(ev)
	return !(e.Ev == "EpochEnd" && panicked != "")
}

// nextHeader moves the block header just past the end of the current epoch of the identifier
func (d *vpDriver) nextHeader(e BEvent, args map[string]interface{}) sdk.Context {
	id := e.str("id")
	t := d.now
	if info, found := d.vw.w.App.EpochsKeeper.GetEpochInfo(d.ctx, id); found {
		if end := info.CurrentEpochStartTime.Add(info.Duration); end.After(t) {
			t = end
		}
	}
	t = t.Add(time.Second)
	h := d.ctx.BlockHeader()
	h.Height++
	h.Time = t
	d.now = t
	args["id"], args["t"] = id, d.sec(t)
	return d.ctx.WithBlockHeader(h)
}

func (d *vpDriver) sec(t time.Time) int64 { return int64(t.Sub(d.vw.w.GenesisTime) / time.Second) }

func (d *vpDriver) call(e BEvent, args map[string]interface{}) error {
	w, ctx := d.vw.w, d.ctx
	k := w.App
	switch e.Ev {
	case "Deposit", "Withdraw", "Delegate", "Undelegate", "Associate", "Dissociate", "Slash":
		return d.ld(e.str("a")).call(e, args)
	case "OptIn", "OptOut":
		o, avs, form := e.str("o"), e.str("avs"), e.str("form")
		if form == "" {
			form = "canon"
		}
		args["o"], args["avs"], args["form"] = o, avs, form
		addr := d.vw.avsString(avs, form)
		ms := operatorkeeper.NewMsgServerImpl(k.OperatorKeeper)
		if e.Ev == "OptIn" {
			req := &operatortypes.OptIntoAVSReq{FromAddress: w.Op(o).String(), AvsAddress: addr}
			if avs == "dog" {
				d.keyN++
				req.PublicKeyJSON = WrappedKey(fmt.Sprintf("vp-key-%d", d.keyN)).ToJSON()
			}
			if err := req.ValidateBasic(); err != nil {
				return err
			}
			_, err := ms.OptIntoAVS(sdk.WrapSDKContext(ctx), req)
			return err
		}
		req := &operatortypes.OptOutOfAVSReq{FromAddress: w.Op(o).String(), AvsAddress: addr}
		if err := req.ValidateBasic(); err != nil {
			return err
		}
		_, err := ms.OptOutOfAVS(sdk.WrapSDKContext(ctx), req)
		return err
	case "UpdateAvs":
		avs := e.str("avs")
		var list []string
		must(json.Unmarshal(e.A["assets"], &list))
		sort.Strings(list)
		ms := e.big("minSelf").Uint64()
		args["avs"], args["minSelf"], args["assets"] = avs, NU64(ms), list
		ids := []string{}
		for _, a := range list {
			ids = append(ids, w.AssetID[a])
		}
		owner := w.OpAddrs[0].String()
		return k.AVSManagerKeeper.UpdateAVSInfo(ctx, &avstypes.AVSRegisterOrDeregisterParams{
			AvsAddress: d.vw.avsAddr[avs], AvsOwnerAddress: []string{owner}, CallerAddress: owner,
			AssetID: ids, MinSelfDelegation: ms, Action: avskeeper.UpdateAction})
	case "KeyRemovalDone":
		o := e.str("o")
		args["o"] = o
		return k.OperatorKeeper.CompleteOperatorKeyRemovalForChainID(ctx, w.Op(o), w.ChainIDNoRev)
	case "SetPrice":
		a := e.str("a")
		p := new(big.Int).Mul(e.big("p"), d.pmul[a])
		pdi := int(e.big("pd").Int64())
		as := d.vw.asset[a]
		pd := as.PDecs[pdi%len(as.PDecs)]
		args["a"], args["p"], args["pd"] = a, NB(p), pd
		tid := d.vw.tokenID[a]
		next := k.OracleKeeper.GetNextRoundID(ctx, tid)
		k.OracleKeeper.SetPrices(ctx, oracletypes.Prices{TokenID: tid, NextRoundID: next + 1,
			PriceList: []*oracletypes.PriceTimeRound{{Price: p.String(), Decimal: pd, RoundID: next, Timestamp: ""}}})
		return nil
	case "EpochEnd":
		before := map[string]int64{}
		for _, ei := range k.EpochsKeeper.AllEpochInfos(ctx) {
			before[ei.Identifier] = ei.CurrentEpoch
		}
		k.BeginBlocker(ctx, abci.RequestBeginBlock{Header: ctx.BlockHeader()})
		ticked := map[string]int64{}
		for _, ei := range k.EpochsKeeper.AllEpochInfos(ctx) {
			if ei.CurrentEpoch != before[ei.Identifier] {
				ticked[ei.Identifier] = before[ei.Identifier]
			}
		}
		args["ticked"] = ticked
		return nil
	}
	return fmt.Errorf("unknown event %s", e.Ev)
}

// ---------------------------------------------------------------------------------------------
// projection

func decStr(d sdkmath.LegacyDec) Num { return ND(d) }

func (d *vpDriver) project() map[string]interface{} {
	w, ctx := d.vw.w, d.ctx
	k := w.App
	st := map[string]interface{}{"h": ctx.BlockHeight(), "now": d.sec(d.now)}

	pool := []map[string]interface{}{}
	oas, _ := k.AssetsKeeper.AllOperatorAssets(ctx)
	for _, oa := range oas {
		for _, as := range oa.AssetsState {
			pool = append(pool, map[string]interface{}{"o": w.OpModel[oa.Operator], "a": w.AssetModel[as.AssetID], "amt": NI(as.Info.TotalAmount),
				"pend": NI(as.Info.PendingUndelegationAmount), "tsh": ND(as.Info.TotalShare), "osh": ND(as.Info.OperatorShare)})
		}
	}
	st["pool"] = pool

	// latest stored price round per token, read from the RAW round store (GetAllPrices iterates the
	// keys; the highest round id wins) - deliberately not through GetPriceTRLatest, which is the
	// lookup the code under test uses
	price := map[string]interface{}{}
	latest := map[uint64]*oracletypes.PriceTimeRound{}
	for _, ps := range k.OracleKeeper.GetAllPrices(ctx) {
		for _, r := range ps.PriceList {
			if r != nil && (latest[ps.TokenID] == nil || r.RoundID > latest[ps.TokenID].RoundID) {
				latest[ps.TokenID] = r
			}
		}
	}
	for _, a := range d.vw.vc.Assets {
		p, found := latest[d.vw.tokenID[a.ID]]
		if !found {
			p = &oracletypes.PriceTimeRound{}
		}
		v, ok := new(big.Int).SetString(p.Price, 10)
		valid := found && ok
		if !valid {
			v = big.NewInt(0)
		}
		price[a.ID] = map[string]interface{}{"found": found, "valid": valid, "v": NB(v), "dec": p.Decimal, "round": p.RoundID}
	}
	st["price"] = price

	avs := map[string]interface{}{}
	for _, id := range d.vw.avsIDs {
		info, err := k.AVSManagerKeeper.GetAVSInfo(ctx, d.vw.avsAddr[id])
		if err != nil {
			avs[id] = map[string]interface{}{"ex": false, "assets": []string{}, "minSelf": N64(0), "epoch": "", "start": 0, "chain": false}
			continue
		}
		as := []string{}
		for _, x := range info.Info.AssetIDs {
			as = append(as, w.AssetModel[x])
		}
		_, chain := k.AVSManagerKeeper.GetChainIDByAVSAddr(ctx, d.vw.avsAddr[id])
		avs[id] = map[string]interface{}{"ex": true, "assets": as, "minSelf": NU64(info.Info.MinSelfDelegation), "epoch": info.Info.EpochIdentifier,
			"start": info.Info.StartingEpoch, "chain": chain}
	}
	st["avs"] = avs

	opt := []map[string]interface{}{}
	ois, _ := k.OperatorKeeper.GetAllOptedInfo(ctx)
	for _, oi := range ois {
		keys, _ := assetstypes.ParseJoinedStoreKey([]byte(oi.Key), 2)
		id, form := d.vw.avsModel(keys[1])
		opt = append(opt, map[string]interface{}{"o": w.OpModel[keys[0]], "avs": id, "form": form,
			"in": oi.OptInfo.OptedOutHeight == operatortypes.DefaultOptedOutHeight, "jailed": oi.OptInfo.Jailed})
	}
	st["opt"] = opt

	usd := []map[string]interface{}{}
	uvs, _ := k.OperatorKeeper.GetAllOperatorUSDValues(ctx)
	for _, u := range uvs {
		keys, _ := assetstypes.ParseJoinedStoreKey([]byte(u.Key), 2)
		id, form := d.vw.avsModel(keys[0])
		usd = append(usd, map[string]interface{}{"avs": id, "form": form, "o": w.OpModel[keys[1]],
			"self": decStr(u.OptedUSDValue.SelfUSDValue), "total": decStr(u.OptedUSDValue.TotalUSDValue), "active": decStr(u.OptedUSDValue.ActiveUSDValue)})
	}
	st["usd"] = usd

	avsusd := []map[string]interface{}{}
	avs2, _ := k.OperatorKeeper.GetAllAVSUSDValues(ctx)
	for _, u := range avs2 {
		id, form := d.vw.avsModel(u.AVSAddr)
		avsusd = append(avsusd, map[string]interface{}{"avs": id, "form": form, "v": decStr(u.Value.Amount)})
	}
	st["avsusd"] = avsusd

	// what the exported getters answer, for every AVS under both spellings of its address
	q := []map[string]interface{}{}
	qavs := []map[string]interface{}{}
	for _, id := range d.vw.avsIDs {
		for _, form := range []string{"canon", "alt"} {
			addr := d.vw.avsString(id, form)
			for i, oa := range w.OpAddrs {
				v, err := k.OperatorKeeper.GetOperatorOptedUSDValue(ctx, addr, oa.String())
				row := map[string]interface{}{"avs": id, "form": form, "o": fmt.Sprintf("o%d", i+1), "ok": err == nil,
					"in": k.OperatorKeeper.IsOptedIn(ctx, oa.String(), addr)}
				if err == nil {
					row["self"], row["total"], row["active"] = decStr(v.SelfUSDValue), decStr(v.TotalUSDValue), decStr(v.ActiveUSDValue)
				} else {
					row["self"], row["total"], row["active"] = N64(0), N64(0), N64(0)
				}
				q = append(q, row)
			}
			v, err := k.OperatorKeeper.GetAVSUSDValue(ctx, addr)
			row := map[string]interface{}{"avs": id, "form": form, "ok": err == nil, "v": N64(0)}
			if err == nil {
				row["v"] = decStr(v)
			}
			qavs = append(qavs, row)
		}
	}
	st["q"] = q
	st["qavs"] = qavs

	vp := map[string]interface{}{}
	var ops []sdk.AccAddress
	ops = append(ops, w.OpAddrs...)
	// a query: the keeper panics ("Int64() out of bound") when a stored value exceeds int64; that is not a block
	// phase, so it is recorded as a failed query and never takes the driver down
	var pw []int64
	var err error
	func() {
		defer func() {
			if r := recover(); r != nil {
				err = fmt.Errorf("PANIC: %v", r)
			}
		}()
		pw, err = k.OperatorKeeper.GetVotePowerForChainID(ctx, ops, w.ChainIDNoRev)
	}()
	st["vpok"] = err == nil
	for i := range w.OpAddrs {
		if err == nil {
			vp[fmt.Sprintf("o%d", i+1)] = N64(pw[i])
		} else {
			vp[fmt.Sprintf("o%d", i+1)] = N64(0)
		}
	}
	st["vp"] = vp

	ep := map[string]interface{}{}
	for _, ei := range k.EpochsKeeper.AllEpochInfos(ctx) {
		ep[ei.Identifier] = map[string]interface{}{"cur": ei.CurrentEpoch, "end": d.sec(ei.CurrentEpochStartTime.Add(ei.Duration))}
	}
	st["epoch"] = ep

	removing := []string{}
	for i, oa := range w.OpAddrs {
		if k.OperatorKeeper.IsOperatorRemovingKeyFromChainID(ctx, oa, w.ChainIDNoRev) {
			removing = append(removing, fmt.Sprintf("o%d", i+1))
		}
	}
	st["removing"] = removing
	return st
}
