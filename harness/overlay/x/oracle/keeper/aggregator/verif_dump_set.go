//go:build verif

package aggregator

import "github.com/ExocoreNetwork/exocore/x/oracle/keeper/common"

// setSlice returns the members of a bounded set in insertion order (read-only).
func setSlice[T comparable](s *common.Set[T]) []T {
	if s == nil {
		return nil
	}
	return s.VerifSlice()
}
