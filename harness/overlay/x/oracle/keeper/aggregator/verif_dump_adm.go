//go:build verif

// Read-only canonical dump of the in-memory aggregator context (verification hook H1, family
// oracleadm). Lives in the verification tree and is compiled into the package through
// `go build -overlay`; nothing is written into the repository.
package aggregator

import (
	"crypto/sha256"
	"encoding/hex"
	"encoding/json"
	"math/big"
	"sort"
	"strconv"
)

func admBig(b *big.Int) interface{} {
	if b == nil {
		return nil
	}
	return b.String()
}

// VerifAdmDump returns a JSON-marshalable, canonically ordered description of the context.
// Maps are keyed by strings (encoding/json sorts them); Go-map backed lists are sorted.
func (agc *AggregatorContext) VerifAdmDump() map[string]interface{} {
	if agc == nil {
		return nil
	}
	out := map[string]interface{}{}
	ph := ""
	if agc.params != nil {
		bz, _ := json.Marshal(agc.params)
		s := sha256.Sum256(bz)
		ph = hex.EncodeToString(s[:])
	}
	out["paramsHash"] = ph
	vp := map[string]interface{}{}
	for k, v := range agc.validatorsPower {
		vp[k] = admBig(v)
	}
	out["validatorsPower"] = vp
	out["totalPower"] = admBig(agc.totalPower)
	rounds := map[string]interface{}{}
	for id, r := range agc.rounds {
		rounds[strconv.FormatUint(id, 10)] = map[string]interface{}{"basedBlock": r.basedBlock, "nextRoundID": r.nextRoundID, "status": int(r.status)}
	}
	out["rounds"] = rounds
	ws := map[string]interface{}{}
	for id, w := range agc.aggregators {
		ws[strconv.FormatUint(id, 10)] = w.verifAdmDump()
	}
	out["workers"] = ws
	return out
}

func (w *worker) verifAdmDump() map[string]interface{} {
	if w == nil {
		return nil
	}
	out := map[string]interface{}{"sealed": w.sealed, "price": w.price, "decimal": w.decimal}
	if w.f != nil {
		vn := map[string]interface{}{}
		for k, s := range w.f.validatorNonce {
			l := make([]int, 0)
			if s != nil {
				for _, n := range s.VerifAdmItems() {
					l = append(l, int(n))
				}
			}
			sort.Ints(l)
			vn[k] = l
		}
		vs := map[string]interface{}{}
		for k, s := range w.f.validatorSource {
			l := make([]string, 0)
			if s != nil {
				l = append(l, s.VerifAdmItems()...)
			}
			sort.Strings(l)
			vs[k] = l
		}
		out["filter"] = map[string]interface{}{"maxNonce": w.f.maxNonce, "maxDetID": w.f.maxDetID, "validatorNonce": vn, "validatorSource": vs}
	}
	if w.c != nil {
		ds := map[string]interface{}{}
		for sid, rl := range w.c.deterministicSource {
			var rs []interface{}
			for _, r := range rl.roundPricesList {
				var ps []interface{}
				for _, p := range r.prices {
					ps = append(ps, map[string]interface{}{"price": admBig(p.price), "power": admBig(p.power)})
				}
				rs = append(rs, map[string]interface{}{"detID": r.detID, "prices": ps, "price": admBig(r.price), "timestamp": r.timestamp})
			}
			ds[strconv.FormatUint(sid, 10)] = rs
		}
		out["calculator"] = map[string]interface{}{"ds": ds, "validatorLength": w.c.validatorLength, "totalPower": admBig(w.c.totalPower)}
	}
	if w.a != nil {
		var reps []interface{}
		for _, r := range w.a.reports {
			ps := map[string]interface{}{}
			for sid, p := range r.prices {
				ps[strconv.FormatUint(sid, 10)] = map[string]interface{}{"price": admBig(p.price), "decimal": p.decimal, "timestamp": p.timestamp, "detRoundID": p.detRoundID}
			}
			reps = append(reps, map[string]interface{}{"validator": r.validator, "price": admBig(r.price), "power": admBig(r.power), "prices": ps})
		}
		dsp := map[string]interface{}{}
		for sid, d := range w.a.dsPrices {
			dsp[strconv.FormatUint(sid, 10)] = d
		}
		out["aggregator"] = map[string]interface{}{"finalPrice": admBig(w.a.finalPrice), "reports": reps, "reportPower": admBig(w.a.reportPower),
			"totalPower": admBig(w.a.totalPower), "dsPrices": dsp}
	}
	return out
}
