//go:build verif

// Hook H1 (read-only): canonical dump of the in-memory aggregator context.
// Lives in $VERIF/harness/overlay and is compiled into the package through `go build -overlay`
// (tools/build.sh); nothing is written into the exocore tree.
package aggregator

import (
	"math/big"
	"sort"
)

type VRound struct {
	Feeder uint64
	Base   uint64
	Next   uint64
	Status int32
}

type VPP struct {
	Price string
	Power string
}

type VCalcRound struct {
	DetID     string
	Prices    []VPP
	Cap       int
	Confirmed bool
	Price     string
	Timestamp string
}

type VCalcSource struct {
	Source uint64
	Cap    int
	Count  int
	Rounds []VCalcRound
}

type VSrcPrice struct {
	Source   uint64
	HasPrice bool
	Price    string
	DetID    string
}

type VReport struct {
	Validator string
	HasPrice  bool
	Price     string
	Prices    []VSrcPrice
	Power     string
}

type VStrSet struct {
	Key  string
	Size int
	Set  []string
}

type VIntSet struct {
	Key  string
	Size int
	Set  []int32
}

type VDs struct {
	Source uint64
	DetID  string
}

type VWorker struct {
	Feeder      uint64
	Sealed      bool
	Price       string
	Decimal     int32
	Live        bool // f, c, a present
	Nonces      []VIntSet
	Sources     []VStrSet
	Calc        []VCalcSource
	CalcVals    int
	CalcTotal   string
	Reports     []VReport
	ReportCap   int
	ReportPower string
	AggTotal    string
	Ds          []VDs
	HasFinal    bool
	Final       string
}

type VPower struct {
	Validator string
	Power     string
}

type VFeeder struct {
	ID       uint64
	TokenID  uint64
	Start    uint64
	Interval uint64
	StartRd  uint64
	End      uint64
}

type VDump struct {
	Nil      bool
	Feeders  []VFeeder // agc.params.TokenFeeders (index 0 skipped)
	MaxNonce int32
	Powers   []VPower
	Total    string
	Rounds   []VRound
	Workers  []VWorker
}

func bs(b *big.Int) string {
	if b == nil {
		return ""
	}
	return b.String()
}

// VerifDump returns a canonical (sorted) copy of the aggregator context. Read-only.
func (agc *AggregatorContext) VerifDump() *VDump {
	if agc == nil {
		return &VDump{Nil: true}
	}
	d := &VDump{Total: bs(agc.totalPower)}
	if agc.params != nil {
		d.MaxNonce = agc.params.MaxNonce
		for i, f := range agc.params.TokenFeeders {
			if i == 0 || f == nil {
				continue
			}
			d.Feeders = append(d.Feeders, VFeeder{uint64(i), f.TokenID, f.StartBaseBlock, f.Interval, f.StartRoundID, f.EndBlock})
		}
	}
	for k, v := range agc.validatorsPower {
		d.Powers = append(d.Powers, VPower{k, bs(v)})
	}
	sort.Slice(d.Powers, func(i, j int) bool { return d.Powers[i].Validator < d.Powers[j].Validator })
	for k, r := range agc.rounds {
		d.Rounds = append(d.Rounds, VRound{k, r.basedBlock, r.nextRoundID, int32(r.status)})
	}
	sort.Slice(d.Rounds, func(i, j int) bool { return d.Rounds[i].Feeder < d.Rounds[j].Feeder })
	for k, w := range agc.aggregators {
		if w == nil {
			continue
		}
		vw := VWorker{Feeder: k, Sealed: w.sealed, Price: w.price, Decimal: w.decimal}
		if w.f != nil && w.c != nil && w.a != nil {
			vw.Live = true
			for vk, s := range w.f.validatorNonce {
				vw.Nonces = append(vw.Nonces, VIntSet{vk, s.Length(), append([]int32{}, setSlice(s)...)})
			}
			sort.Slice(vw.Nonces, func(i, j int) bool { return vw.Nonces[i].Key < vw.Nonces[j].Key })
			for vk, s := range w.f.validatorSource {
				vw.Sources = append(vw.Sources, VStrSet{vk, s.Length(), append([]string{}, setSlice(s)...)})
			}
			sort.Slice(vw.Sources, func(i, j int) bool { return vw.Sources[i].Key < vw.Sources[j].Key })
			vw.CalcVals = w.c.validatorLength
			vw.CalcTotal = bs(w.c.totalPower)
			for sid, l := range w.c.deterministicSource {
				cs := VCalcSource{Source: sid, Cap: cap(l.roundPricesList), Count: l.roundPricesCount}
				for _, r := range l.roundPricesList {
					cr := VCalcRound{DetID: r.detID, Cap: cap(r.prices), Confirmed: r.price != nil, Price: bs(r.price), Timestamp: r.timestamp}
					for _, pp := range r.prices {
						cr.Prices = append(cr.Prices, VPP{bs(pp.price), bs(pp.power)})
					}
					cs.Rounds = append(cs.Rounds, cr)
				}
				vw.Calc = append(vw.Calc, cs)
			}
			sort.Slice(vw.Calc, func(i, j int) bool { return vw.Calc[i].Source < vw.Calc[j].Source })
			vw.ReportCap = cap(w.a.reports)
			vw.ReportPower = bs(w.a.reportPower)
			vw.AggTotal = bs(w.a.totalPower)
			vw.HasFinal = w.a.finalPrice != nil
			vw.Final = bs(w.a.finalPrice)
			for _, r := range w.a.reports {
				vr := VReport{Validator: r.validator, HasPrice: r.price != nil, Price: bs(r.price), Power: bs(r.power)}
				for sid, p := range r.prices {
					sp := VSrcPrice{Source: sid}
					if p != nil {
						sp.HasPrice = p.price != nil
						sp.Price = bs(p.price)
						sp.DetID = p.detRoundID
					}
					vr.Prices = append(vr.Prices, sp)
				}
				sort.Slice(vr.Prices, func(i, j int) bool { return vr.Prices[i].Source < vr.Prices[j].Source })
				vw.Reports = append(vw.Reports, vr)
			}
			for sid, id := range w.a.dsPrices {
				vw.Ds = append(vw.Ds, VDs{sid, id})
			}
			sort.Slice(vw.Ds, func(i, j int) bool { return vw.Ds[i].Source < vw.Ds[j].Source })
		}
		d.Workers = append(d.Workers, vw)
	}
	sort.Slice(d.Workers, func(i, j int) bool { return d.Workers[i].Feeder < d.Workers[j].Feeder })
	return d
}
