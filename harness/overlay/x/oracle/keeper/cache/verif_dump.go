//go:build verif

package cache

import (
	"sort"

	"github.com/ExocoreNetwork/exocore/x/oracle/types"
)

type VCachePower struct {
	Validator string
	Power     string
}

type VCacheDump struct {
	Nil              bool
	Msgs             []types.MsgItem
	Validators       []VCachePower
	ValidatorsUpdate bool
	ParamsUpdate     bool
	MaxNonce         int32
	Params           *types.Params // copy of the cached params item
}

// VerifDump returns a canonical copy of the cache. Read-only (hook H1).
func (c *Cache) VerifDump() *VCacheDump {
	if c == nil {
		return &VCacheDump{Nil: true}
	}
	d := &VCacheDump{ValidatorsUpdate: c.validators.update, ParamsUpdate: c.params.update}
	if c.msg != nil {
		for _, m := range *c.msg {
			d.Msgs = append(d.Msgs, types.MsgItem(*m))
		}
	}
	for k, v := range c.validators.validators {
		d.Validators = append(d.Validators, VCachePower{k, v.String()})
	}
	sort.Slice(d.Validators, func(i, j int) bool { return d.Validators[i].Validator < d.Validators[j].Validator })
	if c.params.params != nil {
		d.MaxNonce = c.params.params.MaxNonce
		pp := types.Params(*c.params.params)
		d.Params = &pp
	}
	return d
}
