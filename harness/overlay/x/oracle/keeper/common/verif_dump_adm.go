//go:build verif

package common

// VerifAdmItems returns a copy of the set's elements in insertion order (read-only hook).
func (s *Set[T]) VerifAdmItems() []T {
	if s == nil {
		return nil
	}
	return append([]T(nil), s.slice...)
}
