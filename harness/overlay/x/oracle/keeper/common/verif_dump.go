//go:build verif

package common

// VerifSlice returns a copy of the members in insertion order. Read-only (hook H1).
func (s *Set[T]) VerifSlice() []T {
	return append([]T{}, s.slice...)
}
