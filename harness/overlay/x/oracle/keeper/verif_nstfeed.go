//go:build verif

package keeper

import "github.com/ExocoreNetwork/exocore/x/oracle/types"

// Verification access (family nstfeed): the pure decoder of native-restaking balance-change payloads.
// Only used for the strict lane (model decoder = code decoder); verdicts come from the real entry points.
// Lives in $VERIF/harness/overlay and is compiled into the package through `go build -overlay`.
func VerifParseBalanceChange(rawData []byte, stakerAddrs []string) (changes map[string]int, err error, panicked string) {
	defer func() {
		if r := recover(); r != nil {
			panicked = "panic"
			if e, ok := r.(error); ok {
				panicked = e.Error()
			}
		}
	}()
	changes, err = parseBalanceChange(rawData, types.StakerList{StakerAddrs: stakerAddrs})
	return changes, err, ""
}
