//go:build verif

package keeper

// Hook H1 (read-only): hands the package-level oracle state to the harness.  Nothing else of the package is
// referenced here: the harness walks these values by reflection (harness/oracle_reflect.go) and looks the pieces
// of its projection up BY NAME, so that a renamed or reshaped internal shows up as drift of the projection, never
// as a build failure.  Lives in $VERIF/harness/overlay and is compiled into the package through `go build -overlay`.
func VerifRoots() map[string]interface{} {
	return map[string]interface{}{
		"agc":              agc,
		"agcCheckTx":       agcCheckTx,
		"cs":               cs,
		"updatedFeederIDs": updatedFeederIDs,
	}
}
