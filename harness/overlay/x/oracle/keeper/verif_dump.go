//go:build verif

package keeper

import (
	"github.com/ExocoreNetwork/exocore/x/oracle/keeper/aggregator"
	"github.com/ExocoreNetwork/exocore/x/oracle/keeper/cache"
)

type VerifMem struct {
	Agc        *aggregator.VDump
	AgcCheckTx *aggregator.VDump
	Cs         *cache.VCacheDump
	Updated    []string
}

// VerifDump returns a canonical copy of the package-level oracle state (hook H1, read-only).
func VerifDump() VerifMem {
	return VerifMem{Agc: agc.VerifDump(), AgcCheckTx: agcCheckTx.VerifDump(), Cs: cs.VerifDump(), Updated: append([]string{}, updatedFeederIDs...)}
}
