//go:build verif

// Read-only access to the oracle module's process-local state (verification hook H1, family oracleadm).
// The hook only hands out the four package-level roots as opaque values; the harness walks them generically
// with reflection (harness/oracleadm_reflect.go), so that changes of the internal types of the aggregator /
// cache packages still compile and merely change the dump.
package keeper

func VerifAdmMemRoots() map[string]interface{} {
	return map[string]interface{}{
		"agc":              agc,
		"agcCheckTx":       agcCheckTx,
		"cs":               cs,
		"updatedFeederIDs": updatedFeederIDs,
	}
}
