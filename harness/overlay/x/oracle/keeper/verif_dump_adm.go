//go:build verif

// Read-only dump of the oracle module's process-local state (verification hook H1, family
// oracleadm): agc, agcCheckTx, the caches and updatedFeederIDs.
package keeper

import (
	"crypto/sha256"
	"encoding/hex"
	"encoding/json"
	"math/big"

	"github.com/ExocoreNetwork/exocore/x/oracle/keeper/cache"
	"github.com/ExocoreNetwork/exocore/x/oracle/types"
)

func VerifAdmDumpMem() map[string]interface{} {
	out := map[string]interface{}{}
	if agc != nil {
		out["agc"] = agc.VerifAdmDump()
	} else {
		out["agc"] = nil
	}
	if agcCheckTx != nil {
		out["agcCheckTx"] = agcCheckTx.VerifAdmDump()
	} else {
		out["agcCheckTx"] = nil
	}
	if cs != nil {
		c := map[string]interface{}{}
		var ms []*cache.ItemM
		cs.GetCache(&ms)
		var l []interface{}
		for _, m := range ms {
			mi := types.MsgItem(*m)
			bz, _ := json.Marshal(&mi)
			l = append(l, json.RawMessage(bz))
		}
		c["msgs"] = l
		vp := map[string]*big.Int{}
		c["validatorsUpdate"] = cs.GetCache(cache.ItemV(vp))
		vps := map[string]string{}
		for k, v := range vp {
			vps[k] = v.String()
		}
		c["validators"] = vps
		func() {
			defer func() { _ = recover() }()
			var p cache.ItemP
			c["paramsUpdate"] = cs.GetCache(&p)
			pp := types.Params(p)
			bz, _ := json.Marshal(&pp)
			s := sha256.Sum256(bz)
			c["paramsHash"] = hex.EncodeToString(s[:])
		}()
		out["cs"] = c
	} else {
		out["cs"] = nil
	}
	u := append([]string{}, updatedFeederIDs...)
	out["updatedFeederIDs"] = u
	return out
}
