// One-off probes of leads that lie next to the oracleadm model (not part of the registered check):
//   eip712   - MsgCreatePrice sent by an ORDINARY account through the legacy EIP-712 (ExtensionOptionsWeb3Tx) ante path
//   simulate - app.Simulate of a price tx while agc has a worker (lead L20: Copy4CheckTx)
package main

import (
	"encoding/json"
	"fmt"

	abci "github.com/cometbft/cometbft/abci/types"
	sdk "github.com/cosmos/cosmos-sdk/types"

	testtx "github.com/ExocoreNetwork/exocore/testutil/tx"
	"github.com/ExocoreNetwork/exocore/utils"
	oraclekeeper "github.com/ExocoreNetwork/exocore/x/oracle/keeper"
	oracletypes "github.com/ExocoreNetwork/exocore/x/oracle/types"
)

func firstLine(err error) string {
	if err == nil {
		return "<nil>"
	}
	s := err.Error()
	for i, c := range s {
		if c == '\n' {
			return s[:i]
		}
	}
	return s
}

func runOracleAdmProbe(args []string) int {
	ac := AdmCfg{Vals: []string{"v1", "v2", "v3"}, Power: map[string]int64{"v1": 2, "v2": 1, "v3": 1}, Others: []string{"a1"},
		Feeders: map[string]AdmFeeder{"1": {Start: 1, Interval: 4}}, MaxNonce: 2, MaxDetID: 2, ThA: 2, ThB: 3, Dets: []string{"d1", "d2"}}
	d := newAdmDriver(ac)
	tw := NewTraceWriter("/dev/null")
	step := func(ev string, a interface{}) {
		raw, _ := json.Marshal(a)
		var m map[string]json.RawMessage
		json.Unmarshal(raw, &m)
		d.exec(BEvent{Ev: ev, A: m}, tw)
	}
	step("NextBlock", map[string]interface{}{})
	good := func(sender string, nonce int32, det string) AdmTx {
		return AdmTx{Mode: "deliver", Sender: sender, Sig: "ok", Size: "ok", Msgs: []AdmMsg{{F: 1, Base: 1, Nonce: nonce, Dets: []string{det}, Dec: "ok", Src: "ok"}}}
	}

	// ---- EIP-712 path, ordinary (funded) account s1 as creator
	priv := d.w.StKeys[0]
	from := sdk.AccAddress(priv.PubKey().Address().Bytes())
	bal := func() string { return d.w.App.BankKeeper.GetBalance(d.deliverCtx(), from, utils.BaseDenom).Amount.String() }
	msg := &oracletypes.MsgCreatePrice{Creator: from.String(), FeederID: 1, BasedBlock: 1, Nonce: 1,
		Prices: []*oracletypes.PriceSource{{SourceID: 1, Prices: []*oracletypes.PriceTimeDetID{{Price: "101", Decimal: 0, Timestamp: d.hdrT.UTC().Format(admLayout), DetID: "d1"}}}}}
	for _, legacyTD := range []bool{true, false} {
		for i := 0; i < 3; i++ {
			txb, err := testtx.PrepareEIP712CosmosTx(d.checkCtx(), d.w.App, testtx.EIP712TxArgs{
				CosmosTxArgs:       testtx.CosmosTxArgs{TxCfg: d.txCfg, Priv: priv, ChainID: d.w.Cfg.ChainID, Gas: 200000, Fees: sdk.NewCoins(), Msgs: []sdk.Msg{msg}},
				UseLegacyExtension: true, UseLegacyTypedData: legacyTD})
			if err != nil {
				fmt.Println("eip712 build error (legacyTypedData =", legacyTD, "):", err)
				break
			}
			bz, err := d.txCfg.TxEncoder()(txb.GetTx())
			must(err)
			b0 := bal()
			rc := d.w.App.CheckTx(abci.RequestCheckTx{Tx: bz, Type: abci.CheckTxType_New})
			fmt.Printf("eip712 legacyTD=%v #%d CheckTx: code=%d priority=%d gasWanted=%d log=%.120q\n", legacyTD, i, rc.Code, rc.Priority, rc.GasWanted, rc.Log)
			rd := d.w.App.DeliverTx(abci.RequestDeliverTx{Tx: bz})
			fmt.Printf("eip712 legacyTD=%v #%d DeliverTx: code=%d gasWanted=%d gasUsed=%d log=%.160q balance %s -> %s seq=%d\n", legacyTD, i, rd.Code, rd.GasWanted, rd.GasUsed, rd.Log, b0, bal(),
				d.w.App.AccountKeeper.GetAccount(d.deliverCtx(), from).GetSequence())
		}
	}

	// ---- Simulate while a worker exists (L20)
	bz, err := d.buildTx(good("v1", 1, "d1"))
	must(err)
	var serr error
	r := d.w.App.DeliverTx(abci.RequestDeliverTx{Tx: bz})
	fmt.Println("deliver v1 nonce1:", r.Code, r.Log[:min(80, len(r.Log))])
	bz2, _ := d.buildTx(good("v2", 1, "d2"))
	func() {
		defer func() {
			if r := recover(); r != nil {
				fmt.Println("simulate PANIC escaped:", r)
			}
		}()
		_, _, serr = d.w.App.Simulate(bz2)
		fmt.Printf("simulate with a worker in agc: err=%s\n", firstLine(serr))
	}()
	mem, _ := json.Marshal(deepDump(oraclekeeper.VerifAdmMemRoots()["agcCheckTx"]))
	fmt.Printf("agcCheckTx after simulate: %.300s\n", mem)
	_, _, serr = d.w.App.Simulate(bz2)
	fmt.Printf("simulate again: err=%s\n", firstLine(serr))
	bz3, _ := d.buildTx(good("v1", 2, "d1"))
	_, _, serr = d.w.App.Simulate(bz3)
	fmt.Printf("simulate v1 nonce2 with the detID v1 already reported: err=%s\n", firstLine(serr))
	r = d.w.App.DeliverTx(abci.RequestDeliverTx{Tx: bz3})
	fmt.Println("deliver v1 nonce2 same detID:", r.Code, r.Log[:min(120, len(r.Log))])
	r = d.w.App.DeliverTx(abci.RequestDeliverTx{Tx: bz2})
	fmt.Println("deliver v2 nonce1 after simulate:", r.Code, r.Log[:min(80, len(r.Log))])
	return 0
}

func init() { commands["oracleadm-probe"] = runOracleAdmProbe }

func init() {
	commands["oracleadm-powers"] = func(args []string) int {
		ac := AdmCfg{Vals: []string{"v1", "v2", "v3"}, Power: map[string]int64{"v1": 2, "v2": 1, "v3": 1}, Others: []string{"a1"},
			Feeders: map[string]AdmFeeder{"1": {Start: 1, Interval: 4}}, MaxNonce: 2, MaxDetID: 2, ThA: 2, ThB: 3, Dets: []string{"d1", "d2"}}
		d := newAdmDriver(ac)
		tw := NewTraceWriter("/dev/null")
		show := func(tag string) {
			fmt.Print(tag, ": dogfood ")
			for _, v := range d.w.App.StakingKeeper.GetAllExocoreValidators(d.deliverCtx()) {
				fmt.Print(d.model(sdk.ConsAddress(v.Address).String()), "=", v.Power, " ")
			}
			mem, _ := json.Marshal(dfield(deepDump(oraclekeeper.VerifAdmMemRoots()["agc"]), "validatorsPower"))
			fmt.Println(" agc", string(mem))
		}
		show("genesis")
		evs := []string{"NextBlock", "Epoch", "NextBlock", "NextBlock"}
		if len(args) > 0 {
			evs = args
		}
		for _, ev := range evs {
			if ev == "ValOut" {
				d.exec(BEvent{Ev: ev, A: map[string]json.RawMessage{"v": json.RawMessage(`"v3"`)}}, tw)
			} else {
				d.exec(BEvent{Ev: ev}, tw)
			}
			show(ev)
		}
		return 0
	}
}
