// nstfeed family driver: native-restaking (NST) balance feed and oracle price payloads.
//
//	harness nstfeed -in beh.ndjson -out trace.ndjson
//
// Every behaviour starts with an Init event carrying its configuration:
//
//	{"ev":"Init","a":{"mode":"ctx"|"abci","dec":0,"stakers":3,"vals":1,"feeder":"nst"|"lst","epoch":0}}
//
// ctx mode : the events run on a CacheContext of block 1 of a full ExocoreApp.  Deposit / Withdraw go through the
//
//	REAL assets precompile (depositNST / withdrawNST, Run as the gateway) inside the cache context a
//	transaction gets (discarded on a Go error or a panic, kept on a `false` flag: the EVM does not revert
//	on a returned false); Feed / Price / Carry call the oracle keeper's UpdateNSTByBalanceChange /
//	AppendPriceTR / GrowRoundID; Delegate / Undelegate / EndBlock are the ledger driver's events.
//
// abci mode: a fresh app per behaviour and REAL blocks (BeginBlock / DeliverTx of signed MsgCreatePrice / EndBlock /
//
//	Commit).  Price = one oracle round in which every validator reports the payload as its price; Carry =
//	one oracle round without reports (EndBlock carries the stored price forward); every block phase is
//	recorded with a panic flag (phase lines), every model event with the state projection after it.
package main

import (
	"encoding/json"
	"flag"
	"fmt"
	"math/big"
	"sort"
	"strings"
	"time"

	abci "github.com/cometbft/cometbft/abci/types"
	tmproto "github.com/cometbft/cometbft/proto/tendermint/types"
	"github.com/cosmos/cosmos-sdk/crypto/keys/ed25519"
	sdk "github.com/cosmos/cosmos-sdk/types"
	"github.com/cosmos/cosmos-sdk/types/tx/signing"
	authsigning "github.com/cosmos/cosmos-sdk/x/auth/signing"
	"github.com/ethereum/go-ethereum/common"
	"github.com/evmos/evmos/v16/encoding"

	exocoreapp "github.com/ExocoreNetwork/exocore/app"
	oraclekeeper "github.com/ExocoreNetwork/exocore/x/oracle/keeper"
	oracletypes "github.com/ExocoreNetwork/exocore/x/oracle/types"
)

type NstCfg struct {
	Mode    string `json:"mode"`
	Dec     uint32 `json:"dec"`
	Stakers int    `json:"stakers"`
	Vals    int    `json:"vals"`
	Feeder  string `json:"feeder"` // which token's feeder is active in abci mode
	Epoch   int64  `json:"epoch"`  // dogfood epoch in seconds (0: the default "day")
}

const (
	nstFeederStart = 2
	nstFeederIv    = 6
	nstMaxNonce    = 3
)

type nstDriver struct {
	cfg  NstCfg
	w    *World
	ld   *ledgerDriver // shares the context; ledger projection and ledger events
	tw   *TraceWriter
	addr map[string]string // lower-case hex staker address -> model id
	pks  map[string]string // hex pubkey -> model name

	// abci mode
	header tmproto.Header
	open   bool
	halted string // phase that panicked
	keys   map[string]*ed25519.PrivKey
	blocks int
}

func nstPubkey(name string) []byte { return []byte("pk:" + name) }

func newNstWorld(c NstCfg) *World {
	gc := DefaultGenCfg()
	gc.NOperators = 2
	if c.Vals > 2 {
		gc.NOperators = c.Vals
	}
	gc.NStakers = c.Stakers
	gc.Assets = []AssetCfg{{ID: "lst", Decimals: 0, Price: "1", PriceDec: 0}, {ID: "nst", Decimals: c.Dec, Price: "", PriceDec: 0, NST: true}}
	gc.Validators = nil
	for i := 0; i < c.Vals; i++ {
		gc.Validators = append(gc.Validators, ValCfg{Op: i, Power: 100})
	}
	if c.Epoch > 0 {
		gc.Epochs = []EpochCfg{{ID: "verif", Duration: time.Duration(c.Epoch) * time.Second}}
		gc.DogfoodEpoch = "verif"
	}
	gc.OracleMut = func(p *oracletypes.Params, g *oracletypes.GenesisState) {
		// tokens: 1 = LST (staking asset of the validators), 2 = NST; one feeder each, only cfg.Feeder is active
		p.MaxNonce = nstMaxNonce
		for i := 1; i < len(p.TokenFeeders); i++ {
			p.TokenFeeders[i].Interval = nstFeederIv
			p.TokenFeeders[i].StartBaseBlock = 1000002
		}
		if c.Mode == "abci" {
			switch c.Feeder {
			case "lst":
				p.TokenFeeders[1].StartBaseBlock = nstFeederStart
				// the genesis round of the LST token is round 1
				p.TokenFeeders[1].StartRoundID = 2
			default:
				p.TokenFeeders[2].StartBaseBlock = nstFeederStart
			}
		}
		must(p.Validate())
	}
	w := NewWorld(gc)
	prm, _ := w.App.AssetsKeeper.GetParams(w.Ctx)
	prm.ExocoreLzAppAddress = gatewayAddr.String()
	must(w.App.AssetsKeeper.SetParams(w.Ctx, prm))
	// what the module's BeginBlock does once per process
	_ = oraclekeeper.GetCaches()
	_ = oraclekeeper.GetAggregatorContext(w.Ctx, w.App.OracleKeeper)
	return w
}

func newNstDriver(c NstCfg, tw *TraceWriter) *nstDriver {
	d := &nstDriver{cfg: c, tw: tw, addr: map[string]string{}, pks: map[string]string{}, keys: map[string]*ed25519.PrivKey{}}
	d.w = newNstWorld(c)
	for i, a := range d.w.StAddrs {
		d.addr[strings.ToLower(a.Hex())] = fmt.Sprintf("s%d", i+1)
	}
	for _, k := range []string{"k1", "k2", "k3"} {
		d.pks["0x"+hexOf(nstPubkey(k))] = k
	}
	lc := LedgerCfg{Stakers: c.Stakers, Operators: d.w.Cfg.NOperators, Assets: []string{"lst", "nst"}, BlocksPer: 10, ModelPrec: 100}
	for i := 0; i < c.Vals; i++ {
		lc.HoldOps = append(lc.HoldOps, fmt.Sprintf("o%d", i+1))
	}
	d.ld = &ledgerDriver{w: d.w, lc: lc, scale: big.NewInt(1)}
	for i := 0; i < c.Vals; i++ {
		d.keys[fmt.Sprintf("v%d", i+1)] = d.w.ConsKeys[fmt.Sprintf("k%d", i+1)]
	}
	d.header = d.w.Header
	d.open = true
	return d
}

func (d *nstDriver) ctx() sdk.Context { return d.ld.ctx }

func (d *nstDriver) cfgJSON() map[string]interface{} {
	j := d.ld.cfgJSON()
	j["deci"].(map[string]int)["nst"] = int(d.cfg.Dec)
	j["nsta"], j["maxefb"], j["bmbytes"], j["blcap"], j["mode"] = "nst", 32, 32, 100, d.cfg.Mode
	return j
}

const nstTokenID = 2

func (d *nstDriver) project() map[string]interface{} {
	ctx := d.ctx()
	k := d.w.App.OracleKeeper
	aid := d.w.AssetID["nst"]
	st := map[string]interface{}{"L": d.ld.project()}
	list := []string{}
	infos := []map[string]interface{}{}
	seen := map[string]bool{}
	addInfo := func(addr string) {
		if seen[addr] {
			return
		}
		seen[addr] = true
		si := k.GetStakerInfo(ctx, aid, addr)
		if si.StakerAddr == "" && len(si.BalanceList) == 0 {
			return
		}
		vals := []string{}
		for _, v := range si.ValidatorPubkeyList {
			if n, ok := d.pks[v]; ok {
				vals = append(vals, n)
			} else {
				vals = append(vals, v)
			}
		}
		e := map[string]interface{}{"s": d.addr[addr], "vals": vals, "nbl": len(si.BalanceList), "sidx": si.StakerIndex, "bal": N64(0), "idx": 0, "rid": 0, "chg": ""}
		if n := len(si.BalanceList); n > 0 {
			b := si.BalanceList[n-1]
			e["bal"], e["idx"], e["rid"] = N64(b.Balance), b.Index, b.RoundID
			e["chg"] = map[oracletypes.Action]string{oracletypes.Action_ACTION_DEPOSIT: "dep", oracletypes.Action_ACTION_WITHDRAW: "wd", oracletypes.Action_ACTION_SLASH_REFUND: "sr"}[b.Change]
		}
		infos = append(infos, e)
	}
	for _, a := range k.GetStakerList(ctx, aid).StakerAddrs {
		if m, ok := d.addr[a]; ok {
			list = append(list, m)
		} else {
			list = append(list, a)
		}
		addInfo(a)
	}
	for a := range d.addr {
		addInfo(a)
	}
	sort.Slice(infos, func(i, j int) bool { return infos[i]["s"].(string) < infos[j]["s"].(string) })
	p := []int{}
	if tr, ok := k.GetPriceTRLatest(ctx, nstTokenID); ok {
		for _, b := range []byte(tr.Price) {
			p = append(p, int(b))
		}
	}
	st["O"] = map[string]interface{}{"list": list, "info": infos, "p": p, "next": k.GetNextRoundID(ctx, nstTokenID)}
	return st
}

func rawOf(e BEvent) []byte {
	var ints []int
	if r, ok := e.A["raw"]; ok {
		must(json.Unmarshal(r, &ints))
	}
	out := make([]byte, len(ints))
	for i, x := range ints {
		out[i] = byte(x)
	}
	return out
}

func intsOf(b []byte) []int {
	out := make([]int, len(b))
	for i, x := range b {
		out[i] = int(x)
	}
	return out
}

// asTx runs f the way a transaction runs: on a cache context that is written unless f fails with a Go error or panics.
func (d *nstDriver) asTx(f func(ctx sdk.Context) error) (err error, panicked string) {
	cc, write := d.ctx().CacheContext()
	func() {
		defer func() {
			if r := recover(); r != nil {
				panicked = fmt.Sprint(r)
			}
		}()
		err = f(cc)
	}()
	if panicked == "" && (err == nil || err == errFlagFalse) {
		write()
	}
	return err, panicked
}

var errFlagFalse = fmt.Errorf("precompile returned false")

// gateway calls depositNST / withdrawNST of the assets precompile
func (d *nstDriver) gateway(e BEvent, args map[string]interface{}) (error, string) {
	s, pk := e.str("s"), e.str("pk")
	x := e.big("x")
	args["s"], args["pk"], args["x"] = s, pk, NB(x)
	m := "depositNST"
	if e.Ev == "Withdraw" {
		m = "withdrawNST"
	}
	return d.asTx(func(ctx sdk.Context) error {
		ok, err := RunPrecompile(d.w, ctx, AssetsPrecompileAddr, gatewayAddr, common.Hash{}, m, uint32(LzID), nstPubkey(pk), leftAligned32(d.w.St(s).Bytes()), x)
		if err != nil {
			return err
		}
		if !ok {
			return errFlagFalse
		}
		return nil
	})
}

func (d *nstDriver) emit(ev string, args map[string]interface{}, err error, panicked string, extra map[string]interface{}) {
	line := map[string]interface{}{"ev": ev, "a": args, "ok": err == nil && panicked == "", "panic": panicked != "", "halt": d.halted, "st": d.project(), "blocks": d.blocks}
	d.blocks = 0
	if err != nil {
		line["err"] = err.Error()
	}
	if panicked != "" {
		line["err"] = "PANIC: " + panicked
	}
	for k, v := range extra {
		line[k] = v
	}
	d.tw.Emit(line)
}

// ---------------------------------------------------------------------------------------------
// ctx mode

func (d *nstDriver) execCtx(e BEvent) {
	k := d.w.App.OracleKeeper
	aid := d.w.AssetID["nst"]
	args := map[string]interface{}{}
	switch e.Ev {
	case "Deposit", "Withdraw":
		err, pan := d.gateway(e, args)
		d.emit(e.Ev, args, err, pan, nil)
	case "Feed":
		raw := rawOf(e)
		rid := e.big("rid").Uint64()
		args["raw"], args["rid"] = intsOf(raw), rid
		// a keeper entry point: no cache context of its own (its callers log the error and go on)
		var err error
		pan := ""
		cc, write := d.ctx().CacheContext()
		func() {
			defer func() {
				if r := recover(); r != nil {
					pan = fmt.Sprint(r)
				}
			}()
			err = k.UpdateNSTByBalanceChange(cc, aid, raw, rid)
		}()
		if pan == "" {
			write()
		}
		d.emit(e.Ev, args, err, pan, nil)
	case "Price":
		raw := rawOf(e)
		args["raw"] = intsOf(raw)
		err, pan := d.asTx(func(ctx sdk.Context) error {
			if !k.AppendPriceTR(ctx, nstTokenID, oracletypes.PriceTimeRound{Price: string(raw), Decimal: 0, Timestamp: oracleTimestamp, RoundID: k.GetNextRoundID(ctx, nstTokenID)}) {
				return fmt.Errorf("AppendPriceTR returned false")
			}
			return nil
		})
		d.emit(e.Ev, args, err, pan, nil)
	case "Carry":
		args["x"] = 0
		err, pan := d.asTx(func(ctx sdk.Context) error { k.GrowRoundID(ctx, nstTokenID); return nil })
		d.emit(e.Ev, args, err, pan, nil)
	case "Delegate", "Undelegate", "EndBlock":
		reps := 1
		if e.Ev == "EndBlock" {
			reps = d.ld.lc.BlocksPer
		}
		for i := 0; i < reps; i++ {
			a := map[string]interface{}{}
			var err error
			pan := ""
			func() {
				defer func() {
					if r := recover(); r != nil {
						pan = fmt.Sprint(r)
					}
				}()
				err = d.ld.call(e, a)
			}()
			d.emit(e.Ev, a, err, pan, nil)
		}
	case "Parse":
		raw := rawOf(e)
		n := int(e.big("n").Int64())
		var l []string
		for i := 0; i < n; i++ {
			l = append(l, fmt.Sprintf("%d", i))
		}
		ch, err, pan := oraclekeeper.VerifParseBalanceChange(raw, l)
		res := map[string]interface{}{"err": "", "map": []interface{}{}}
		switch {
		case pan != "":
			res["err"] = "PANIC"
		case err != nil:
			res["err"] = "ERR"
		default:
			m := []interface{}{}
			for i := 0; i < n; i++ {
				if v, ok := ch[fmt.Sprintf("%d", i)]; ok {
					m = append(m, map[string]int{"i": i, "v": v})
				}
			}
			res["map"] = m
		}
		d.tw.Emit(map[string]interface{}{"ev": "Parse", "a": map[string]interface{}{"raw": intsOf(raw), "n": n}, "res": res, "ok": pan == "" && err == nil, "panic": pan != ""})
	default:
		panic("nstfeed: unknown ctx event " + e.Ev)
	}
}

func runNstFeed(args []string) int {
	fs := flag.NewFlagSet("nstfeed", flag.ExitOnError)
	in := fs.String("in", "", "behaviours")
	out := fs.String("out", "", "trace")
	fs.Int64("seed", 1, "seed (unused)")
	fs.Parse(args)
	tw := NewTraceWriter(*out)
	defer tw.Close()
	behs := ReadBehaviours(*in)
	var ctxW *nstDriver // ctx-mode worlds are reused across behaviours with the same configuration
	for bi, b := range behs {
		if len(b) == 0 || b[0].Ev != "Init" {
			panic("nstfeed: behaviour must start with Init")
		}
		var c NstCfg
		bz, _ := json.Marshal(b[0].A)
		must(json.Unmarshal(bz, &c))
		if c.Vals == 0 {
			c.Vals = 1
		}
		if c.Mode == "abci" {
			d := newNstDriver(c, tw)
			d.ld.ctx = d.w.Ctx
			d.runAbci(bi, b[1:])
			continue
		}
		if ctxW == nil || ctxW.cfg != c {
			ctxW = newNstDriver(c, tw)
		}
		d := ctxW
		d.ld.ctx, _ = d.w.Ctx.CacheContext()
		tw.Emit(map[string]interface{}{"ev": "reset", "b": bi, "cfg": d.cfgJSON(), "st": d.project()})
		for _, e := range b[1:] {
			d.execCtx(e)
		}
	}
	fmt.Printf("nstfeed: behaviours=%d lines=%d\n", len(behs), tw.n)
	return 0
}

func init() { commands["nstfeed"] = runNstFeed }

// ---------------------------------------------------------------------------------------------
// abci mode

func (d *nstDriver) phase(name, why string, f func()) bool {
	panicked := ""
	func() {
		defer func() {
			if r := recover(); r != nil {
				panicked = fmt.Sprint(r)
			}
		}()
		f()
	}()
	ev := map[string]interface{}{"ev": name, "phase": true, "h": d.header.Height, "why": why, "panic": panicked != ""}
	if panicked != "" {
		if len(panicked) > 300 {
			panicked = panicked[:300]
		}
		ev["err"] = panicked
		d.halted = name
	}
	d.tw.Emit(ev)
	return panicked == ""
}

// nextBlock closes the open block (EndBlock, Commit) and opens the next one dt later
func (d *nstDriver) nextBlock(dt time.Duration, why string) {
	app := d.w.App
	if d.halted != "" {
		return
	}
	if d.open {
		if !d.phase("EndBlock", why, func() { app.EndBlock(abci.RequestEndBlock{Height: d.header.Height}) }) {
			return
		}
		if !d.phase("Commit", why, func() { app.Commit() }) {
			return
		}
		d.open = false
		d.blocks++
	}
	d.header.Height++
	d.header.Time = d.header.Time.Add(dt)
	d.header.AppHash = app.LastCommitID().Hash
	var votes []abci.VoteInfo
	for i := 0; i < d.cfg.Vals; i++ {
		votes = append(votes, abci.VoteInfo{Validator: abci.Validator{Address: d.w.ConsKeys[fmt.Sprintf("k%d", i+1)].PubKey().Address(), Power: 100}, SignedLastBlock: true})
	}
	if !d.phase("BeginBlock", why, func() { app.BeginBlock(abci.RequestBeginBlock{Header: d.header, LastCommitInfo: abci.CommitInfo{Votes: votes}}) }) {
		return
	}
	d.ld.ctx = app.BaseApp.NewContext(false, d.header)
	d.open = true
}

// align advances to the first block of the next oracle window (height = base + 1) and returns base
func (d *nstDriver) align(why string) uint64 {
	for d.halted == "" {
		h := uint64(d.header.Height)
		if h-1 >= nstFeederStart && (h-1-nstFeederStart)%nstFeederIv == 0 {
			return h - 1
		}
		d.nextBlock(time.Second, why)
	}
	return 0
}

var nstTxCfg = encoding.MakeConfig(exocoreapp.ModuleBasics).TxConfig

// one signed MsgCreatePrice of validator v
func (d *nstDriver) priceTx(v string, feeder uint64, base uint64, nonce int32, price string, detID string) []byte {
	key := d.keys[v]
	b := nstTxCfg.NewTxBuilder()
	ps := &oracletypes.PriceSource{SourceID: 1, Prices: []*oracletypes.PriceTimeDetID{{Price: price, Decimal: 0, Timestamp: oracleTimestamp, DetID: detID}}}
	msg := &oracletypes.MsgCreatePrice{Creator: sdk.AccAddress(key.PubKey().Address()).String(), FeederID: feeder, Prices: []*oracletypes.PriceSource{ps}, BasedBlock: base, Nonce: nonce}
	must(b.SetMsgs(msg))
	b.SetGasLimit(0)
	mode := signing.SignMode_SIGN_MODE_DIRECT
	sig := signing.SignatureV2{PubKey: key.PubKey(), Data: &signing.SingleSignatureData{SignMode: mode}, Sequence: 0}
	must(b.SetSignatures(sig))
	bz, err := nstTxCfg.SignModeHandler().GetSignBytes(mode, authsigning.SignerData{ChainID: d.w.Cfg.ChainID}, b.GetTx())
	must(err)
	sg, err := key.Sign(bz)
	must(err)
	sig.Data = &signing.SingleSignatureData{SignMode: mode, Signature: sg}
	must(b.SetSignatures(sig))
	out, err := nstTxCfg.TxEncoder()(b.GetTx())
	must(err)
	return out
}

// deliver returns (code, log, escaped panic)
func (d *nstDriver) deliver(tx []byte, why string) (code uint32, log string) {
	d.phase("DeliverTx", why, func() {
		res := d.w.App.DeliverTx(abci.RequestDeliverTx{Tx: tx})
		code, log = res.Code, res.Log
		if len(log) > 200 {
			log = log[:200]
		}
	})
	return
}

// priceRound: every validator reports `price` for the feeder in the first block of the next window
func (d *nstDriver) priceRound(feeder uint64, prices []string, why string) (results []map[string]interface{}) {
	results = []map[string]interface{}{}
	base := d.align(why)
	for i, p := range prices {
		if d.halted != "" {
			break
		}
		v := fmt.Sprintf("v%d", i+1)
		if p == "<absent>" {
			continue
		}
		code, log := d.deliver(d.priceTx(v, feeder, base, 1, p, "1"), why)
		d.ld.ctx = d.w.App.BaseApp.NewContext(false, d.header)
		results = append(results, map[string]interface{}{"v": v, "code": code, "log": log, "recovered": strings.Contains(log, "panic") || strings.Contains(log, "runtime error")})
	}
	for i := 0; i < nstMaxNonce && d.halted == ""; i++ {
		d.nextBlock(time.Second, why)
	}
	return results
}

// price strings of the input classes of the liveness part
func nstPriceClass(cls string) string {
	switch cls {
	case "num":
		return "7"
	case "num2":
		return "9"
	case "empty":
		return ""
	case "alpha":
		return "abc"
	case "plus":
		return "+5"
	case "neg":
		return "-5"
	case "hex":
		return "0x10"
	case "space":
		return " 7"
	case "exp":
		return "1e3"
	case "dot":
		return "1.5"
	case "zero":
		return "0"
	case "lead0":
		return "007"
	case "huge70": // fits 256 bits; amount * price does not
		return "1" + strings.Repeat("0", 70)
	case "huge76": // fits 256 bits; 100 base units * price does not
		return "1" + strings.Repeat("0", 76)
	case "huge90": // does not fit 256 bits
		return "1" + strings.Repeat("0", 90)
	case "bytes":
		return string([]byte{0xff, 0xfe, 0x00, 0x31})
	case "absent":
		return "<absent>"
	}
	return cls
}

func (d *nstDriver) runAbci(bi int, evs []BEvent) {
	d.tw.Emit(map[string]interface{}{"ev": "reset", "b": bi, "cfg": d.cfgJSON(), "st": d.project()})
	k := d.w.App
	for _, e := range evs {
		if d.halted != "" {
			break
		}
		args := map[string]interface{}{}
		switch e.Ev {
		case "Deposit", "Withdraw":
			err, pan := d.gateway(e, args)
			d.emit(e.Ev, args, err, pan, nil)
		case "Delegate":
			var err error
			err, pan := d.asTx(func(ctx sdk.Context) error {
				sub := *d.ld
				sub.ctx = ctx
				err = sub.call(e, args)
				return err
			})
			d.emit(e.Ev, args, err, pan, nil)
		case "Price":
			raw := rawOf(e)
			args["raw"] = intsOf(raw)
			before := k.OracleKeeper.GetNextRoundID(d.ctx(), nstTokenID)
			var prices []string
			for i := 0; i < d.cfg.Vals; i++ {
				prices = append(prices, string(raw))
			}
			res := d.priceRound(nstTokenID, prices, "Price")
			if d.halted != "" {
				d.tw.Emit(map[string]interface{}{"ev": e.Ev, "a": args, "ok": false, "panic": true, "halt": d.halted, "txs": res, "blocks": d.blocks})
				break
			}
			rec := false
			for _, r := range res {
				rec = rec || r["recovered"].(bool)
			}
			after := k.OracleKeeper.GetNextRoundID(d.ctx(), nstTokenID)
			var err error
			if after == before {
				err = fmt.Errorf("no round stored")
			}
			pan := ""
			if rec {
				pan = "recovered by baseapp in DeliverTx"
			}
			d.emit(e.Ev, args, err, pan, map[string]interface{}{"txs": res})
		case "Carry":
			args["x"] = 0
			d.align("Carry")
			for i := 0; i < nstMaxNonce && d.halted == ""; i++ {
				d.nextBlock(time.Second, "Carry")
			}
			if d.halted != "" {
				d.tw.Emit(map[string]interface{}{"ev": e.Ev, "a": args, "ok": false, "panic": true, "halt": d.halted, "blocks": d.blocks})
				break
			}
			d.emit(e.Ev, args, nil, "", nil)
		case "Str": // one oracle round of the LST token with one price string (class) per validator
			var cls []string
			must(json.Unmarshal(e.A["ps"], &cls))
			args["ps"] = cls
			var prices []string
			for _, c := range cls {
				prices = append(prices, nstPriceClass(c))
			}
			res := d.priceRound(1, prices, "Str")
			if d.halted != "" {
				d.tw.Emit(map[string]interface{}{"ev": e.Ev, "a": args, "ok": false, "panic": true, "halt": d.halted, "txs": res, "blocks": d.blocks})
				break
			}
			lp := ""
			if tr, ok := k.OracleKeeper.GetPriceTRLatest(d.ctx(), 1); ok {
				lp = tr.Price
			}
			d.emit(e.Ev, args, nil, "", map[string]interface{}{"txs": res, "lstPrice": lp, "lstNext": k.OracleKeeper.GetNextRoundID(d.ctx(), 1)})
		case "Epoch": // the dogfood epoch ends: voting powers are recomputed from the latest prices
			args["x"] = 0
			d.nextBlock(time.Duration(d.cfg.Epoch+1)*time.Second, "Epoch")
			d.nextBlock(time.Second, "Epoch")
			if d.halted != "" {
				d.tw.Emit(map[string]interface{}{"ev": e.Ev, "a": args, "ok": false, "panic": true, "halt": d.halted, "blocks": d.blocks})
				break
			}
			d.emit(e.Ev, args, nil, "", nil)
		default:
			panic("nstfeed: unknown abci event " + e.Ev)
		}
	}
	// progress: the blocks of two further oracle rounds must be processed
	for i := 0; i < 2*nstFeederIv && d.halted == ""; i++ {
		d.nextBlock(time.Second, "tail")
	}
	d.tw.Emit(map[string]interface{}{"ev": "end", "phase": true, "halted": d.halted != "", "halt": d.halted, "h": d.header.Height, "panic": false})
}
