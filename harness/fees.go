// Fees family driver (block mode): executes TLC-generated behaviours of MC_Fees against a full
// ExocoreApp (one fresh app per behaviour: the world - validator powers, commission rates,
// community tax, epoch reward, distribution / mint identifiers - is GENESIS of that app), with
// real blocks (EndBlock, Commit, BeginBlock with chosen header times so that the wanted epoch
// identifiers end) and records, after every event, the projection of spec/Fees.tla: bank supply
// of the native denom, the fee_collector / exomint / feedistribution module balances, the
// feedistribution books (raw prefix scans of its store) and the environment the allocation
// reads (validators, powers, last total power, commission rates, the staker entries per
// operator, params).  Validated by spec/Trace_Fees.tla.
package main

import (
	"encoding/json"
	"flag"
	"fmt"
	"math/big"
	"math/rand"
	"sort"
	"strings"
	"time"

	sdkmath "cosmossdk.io/math"
	abci "github.com/cometbft/cometbft/abci/types"
	tmproto "github.com/cometbft/cometbft/proto/tendermint/types"
	clienttx "github.com/cosmos/cosmos-sdk/client/tx"
	sdk "github.com/cosmos/cosmos-sdk/types"
	"github.com/cosmos/cosmos-sdk/types/tx/signing"
	authsigning "github.com/cosmos/cosmos-sdk/x/auth/signing"
	authtypes "github.com/cosmos/cosmos-sdk/x/auth/types"
	banktypes "github.com/cosmos/cosmos-sdk/x/bank/types"
	govtypes "github.com/cosmos/cosmos-sdk/x/gov/types"
	stakingtypes "github.com/cosmos/cosmos-sdk/x/staking/types"
	"github.com/ethereum/go-ethereum/common"
	"github.com/evmos/evmos/v16/encoding"
	evmtypes "github.com/evmos/evmos/v16/x/evm/types"
	feemarkettypes "github.com/evmos/evmos/v16/x/feemarket/types"

	exocoreapp "github.com/ExocoreNetwork/exocore/app"
	"github.com/ExocoreNetwork/exocore/utils"
	assetskeeper "github.com/ExocoreNetwork/exocore/x/assets/keeper"
	assetstypes "github.com/ExocoreNetwork/exocore/x/assets/types"
	avstypes "github.com/ExocoreNetwork/exocore/x/avs/types"
	delegationtypes "github.com/ExocoreNetwork/exocore/x/delegation/types"
	exominttypes "github.com/ExocoreNetwork/exocore/x/exomint/types"
	distrtypes "github.com/ExocoreNetwork/exocore/x/feedistribution/types"
	operatortypes "github.com/ExocoreNetwork/exocore/x/operator/types"
)

type FeesCfg struct {
	Scales    []string `json:"scales"`    // amount multipliers (fees, rewards, burns), one picked per behaviour
	PScales   []int64  `json:"pscales"`   // multipliers of validator powers and delegated tokens
	ModelPrec int64    `json:"modelPrec"` // PREC of the generating model (unit of rates and tax)
	Stakers   int      `json:"stakers"`
	Dogfood   []string `json:"dogfood"`  // dogfood epoch identifiers to choose from ("day" = never ends here)
	ExtraAvs  []int    `json:"extraAvs"` // number of additional AVSs every validator operator opts into, one picked per behaviour
}

const feeTxGas = 300000

var feesIDs = []string{"ea", "eb"} // store (byte) order
var feesDur = map[string]time.Duration{"ea": 60 * time.Second, "eb": 100 * time.Second}

type feesSetup struct {
	Pw      []int64
	Rate    []*big.Int // scaled to 10^18
	Tax     *big.Int
	Reward  *big.Int
	DistID  string
	MintID  string
	Dogfood string
	Scale   *big.Int
	PScale  int64
	Extra   int
}

type feesDriver struct {
	w      *World
	fc     FeesCfg
	su     feesSetup
	header tmproto.Header
	ctx    sdk.Context // context to read / act on: deliver state after BeginBlock, committed state after Commit
	inBlk  bool
	dead   bool // a BeginBlock/EndBlock panicked: the chain has halted
	txSeq  int
	lastSt map[string]interface{}
}

func init() { commands["fees"] = runFees }

func runFees(args []string) int {
	fs := flag.NewFlagSet("fees", flag.ExitOnError)
	in := fs.String("in", "", "behaviours (ndjson of event arrays)")
	out := fs.String("out", "", "trace output (ndjson)")
	seed := fs.Int64("seed", 1, "seed")
	cfgS := fs.String("cfg", "", "FeesCfg JSON")
	fs.Parse(args)
	var fc FeesCfg
	must(json.Unmarshal([]byte(*cfgS), &fc))
	if fc.Stakers == 0 {
		fc.Stakers = 3
	}
	if len(fc.Scales) == 0 {
		fc.Scales = []string{"1"}
	}
	if len(fc.PScales) == 0 {
		fc.PScales = []int64{1}
	}
	if len(fc.Dogfood) == 0 {
		fc.Dogfood = []string{"day"}
	}
	if len(fc.ExtraAvs) == 0 {
		fc.ExtraAvs = []int{0}
	}
	if fc.ModelPrec == 0 {
		fc.ModelPrec = 100
	}
	rng := rand.New(rand.NewSource(*seed))
	tw := NewTraceWriter(*out)
	defer tw.Close()
	behaviours := ReadBehaviours(*in)
	for bi, b := range behaviours {
		if len(b) == 0 || b[0].Ev != "Setup" {
			panic("behaviour must start with Setup")
		}
		d := &feesDriver{fc: fc}
		d.setup(b[0], rng)
		d.lastSt = d.project()
		tw.Emit(map[string]interface{}{"ev": "reset", "b": bi, "scale": NB(d.su.Scale), "cfg": map[string]interface{}{"idord": feesIDs},
			"setup": d.setupJSON(), "st": d.lastSt})
		for _, e := range b[1:] {
			if d.dead {
				break
			}
			d.exec(e, tw)
		}
	}
	fmt.Printf("fees: behaviours=%d events=%d\n", len(behaviours), tw.n)
	return 0
}

func scaleRate(x *big.Int, modelPrec int64) *big.Int {
	f := new(big.Int).Mul(x, prec18)
	return f.Quo(f, big.NewInt(modelPrec))
}

func (d *feesDriver) setupJSON() map[string]interface{} {
	rates := []Num{}
	for _, r := range d.su.Rate {
		rates = append(rates, NB(r))
	}
	return map[string]interface{}{"pw": d.su.Pw, "rate": rates, "tax": NB(d.su.Tax), "reward": NB(d.su.Reward), "distId": d.su.DistID,
		"mintId": d.su.MintID, "dogfood": d.su.Dogfood, "pscale": d.su.PScale, "extraAvs": d.su.Extra}
}

func (d *feesDriver) setup(e BEvent, rng *rand.Rand) {
	var pw []int64
	must(json.Unmarshal(e.A["pw"], &pw))
	var rateRaw []json.RawMessage
	must(json.Unmarshal(e.A["rate"], &rateRaw))
	su := feesSetup{DistID: e.str("distId"), MintID: e.str("mintId")}
	su.Scale, _ = new(big.Int).SetString(d.fc.Scales[rng.Intn(len(d.fc.Scales))], 10)
	su.PScale = d.fc.PScales[rng.Intn(len(d.fc.PScales))]
	su.Dogfood = d.fc.Dogfood[rng.Intn(len(d.fc.Dogfood))]
	su.Extra = d.fc.ExtraAvs[rng.Intn(len(d.fc.ExtraAvs))]
	if _, ok := e.A["xa"]; ok {
		su.Extra = int(e.big("xa").Int64())
	}
	mp := d.fc.ModelPrec
	if p := e.big("prec"); p.Sign() > 0 {
		mp = p.Int64()
	}
	for _, p := range pw {
		su.Pw = append(su.Pw, p*su.PScale)
	}
	for _, r := range rateRaw {
		b, err := ParseNum(r)
		must(err)
		su.Rate = append(su.Rate, scaleRate(b, mp))
	}
	su.Tax = scaleRate(e.big("tax"), mp)
	su.Reward = new(big.Int).Mul(e.big("reward"), su.Scale)
	d.su = su

	gc := DefaultGenCfg()
	gc.NOperators = len(pw)
	gc.NStakers = d.fc.Stakers
	gc.Assets = []AssetCfg{{ID: "a1", Decimals: 0, Price: "1", PriceDec: 0}, {ID: "a2", Decimals: 0, Price: "1", PriceDec: 0}}
	gc.Validators = nil
	for i, p := range su.Pw {
		if p > 0 {
			gc.Validators = append(gc.Validators, ValCfg{Op: i, Power: p})
		}
	}
	// a chain cannot start without validators: the "zero power" world is a one-validator genesis
	// whose LastTotalPower is overwritten with 0 at keeper level (AllocateTokens reads only that)
	zeroPower := len(gc.Validators) == 0
	if zeroPower {
		gc.Validators = []ValCfg{{Op: 0, Power: su.PScale}}
	}
	gc.DogfoodEpoch = su.Dogfood
	gc.Epochs = []EpochCfg{{ID: "ea", Duration: feesDur["ea"]}, {ID: "eb", Duration: feesDur["eb"]}}
	gc.NativeFunds = "1000000000000000000000000000000000000"
	gc.GenesisMut = func(w *World, gs map[string]json.RawMessage) {
		cdc := w.App.AppCodec()
		// commission rates
		var og operatortypes.GenesisState
		cdc.MustUnmarshalJSON(gs[operatortypes.ModuleName], &og)
		for i := range og.Operators {
			m := w.OpModel[og.Operators[i].OperatorAddress]
			var oi int
			fmt.Sscanf(m, "o%d", &oi)
			r := sdkmath.LegacyNewDecFromBigIntWithPrec(su.Rate[oi-1], 18)
			og.Operators[i].OperatorInfo.Commission = stakingtypes.NewCommission(r, sdkmath.LegacyOneDec(), sdkmath.LegacyOneDec())
		}
		gs[operatortypes.ModuleName] = cdc.MustMarshalJSON(&og)
		// feedistribution and exomint params
		dg := distrtypes.NewGenesisState(distrtypes.Params{EpochIdentifier: su.DistID, CommunityTax: sdkmath.LegacyNewDecFromBigIntWithPrec(su.Tax, 18)})
		gs[distrtypes.ModuleName] = cdc.MustMarshalJSON(dg)
		mg := exominttypes.GenesisState{Params: exominttypes.NewParams(utils.BaseDenom, sdkmath.NewIntFromBigInt(su.Reward), su.MintID)}
		gs[exominttypes.ModuleName] = cdc.MustMarshalJSON(&mg)
		// fee market: no base fee, so that a cosmos tx may carry any fee (FeeIncome path "tx")
		fg := feemarkettypes.DefaultGenesisState()
		fg.Params.NoBaseFee = true
		fg.Params.MinGasPrice = sdkmath.LegacyZeroDec()
		fg.Params.BaseFee = sdkmath.ZeroInt()
		gs[feemarkettypes.ModuleName] = cdc.MustMarshalJSON(fg)
	}
	d.w = NewWorld(gc)
	d.header = d.w.Header
	d.ctx = d.w.App.BaseApp.NewContext(false, d.header)
	d.inBlk = true
	if zeroPower {
		d.w.App.StakingKeeper.SetLastTotalPower(d.ctx, sdkmath.ZeroInt())
	}
	if su.Extra > 0 {
		d.extraAvs(su.Extra)
	}
}

// extraAvs registers (keeper level, block 1) one more AVS that accepts only asset a2 and opts every validator
// operator into it.  Its epoch identifier is the distribution identifier: the operator hook that refreshes its
// USD values then runs AFTER the distribution hook of the same epoch end, so that the staker values the
// allocation reads are the ones observable before the block (an AVS epoch that ends earlier in the same
// BeginBlock would change them between the observation and the allocation).  mode 1: its address sorts BEFORE the chain AVS in the
// operator's opted-in list, mode 2: AFTER it.
func (d *feesDriver) extraAvs(mode int) {
	k := d.w.App
	first := byte(0x01)
	if mode == 2 {
		first = 0xf1
	}
	bz := make([]byte, 20)
	bz[0], bz[19] = first, 0xa5
	addr := strings.ToLower(common.BytesToAddress(bz).String())
	owner := d.w.OpAddrs[0].String()
	must(k.AVSManagerKeeper.SetAVSInfo(d.ctx, &avstypes.AVSInfo{Name: "extra", AvsAddress: addr, SlashAddr: addr, RewardAddr: addr,
		AvsOwnerAddress: []string{owner}, AssetIDs: []string{d.w.AssetID["a2"]}, AvsUnbondingPeriod: 2, MinSelfDelegation: 0,
		EpochIdentifier: d.su.DistID, StartingEpoch: 1, MinOptInOperators: 0, MinTotalStakeAmount: 0,
		AvsReward: sdkmath.LegacyZeroDec(), AvsSlash: sdkmath.LegacyZeroDec()}))
	for i, p := range d.su.Pw {
		if p > 0 {
			must(k.OperatorKeeper.OptIn(d.ctx, d.w.OpAddrs[i], addr))
		}
	}
}

func (d *feesDriver) amt(e BEvent, k string) sdkmath.Int {
	return sdkmath.NewIntFromBigInt(new(big.Int).Mul(e.big(k), d.su.Scale))
}

func (d *feesDriver) emit(tw *TraceWriter, ev string, args map[string]interface{}, err error, panicked string) {
	st := d.project()
	d.lastSt = st
	line := map[string]interface{}{"ev": ev, "a": args, "ok": err == nil && panicked == "", "panic": panicked != "", "st": st}
	if err != nil {
		line["err"] = err.Error()
	}
	if panicked != "" {
		line["err"] = "PANIC: " + panicked
	}
	tw.Emit(line)
}

func (d *feesDriver) guarded(f func() error) (err error, panicked string) {
	defer func() {
		if r := recover(); r != nil {
			panicked = fmt.Sprint(r)
		}
	}()
	err = f()
	return
}

func (d *feesDriver) exec(e BEvent, tw *TraceWriter) {
	if e.Ev == "Block" {
		args := map[string]interface{}{}
		err, p := d.guarded(func() error { return d.endBlock() })
		if p != "" {
			d.dead = true
		}
		d.emitSafe(tw, "EndBlock", args, err, p)
		if d.dead {
			return
		}
		var want []string
		json.Unmarshal(e.A["ended"], &want)
		args = map[string]interface{}{}
		err, p = d.guarded(func() error { return d.beginBlock(want, args) })
		if p != "" {
			d.dead = true
		}
		d.emitSafe(tw, "BeginBlock", args, err, p)
		return
	}
	args := map[string]interface{}{}
	err, p := d.guarded(func() error { return d.call(e, args) })
	d.emitSafe(tw, e.Ev, args, err, p)
}

// after a panic inside a block phase the state may be unreadable; log the last readable one
func (d *feesDriver) emitSafe(tw *TraceWriter, ev string, args map[string]interface{}, err error, panicked string) {
	if _, ok := args["ended"]; !ok && ev == "BeginBlock" {
		args["ended"] = []string{}
	}
	_, p2 := d.guarded(func() error { d.emit(tw, ev, args, err, panicked); return nil })
	if p2 != "" {
		line := map[string]interface{}{"ev": ev, "a": args, "ok": false, "panic": true, "err": "PANIC: " + panicked + " / projection: " + p2, "st": d.lastSt}
		tw.Emit(line)
		d.dead = true
	}
}

func (d *feesDriver) endBlock() error {
	app := d.w.App
	app.EndBlock(abci.RequestEndBlock{Height: d.header.Height})
	app.Commit()
	d.inBlk = false
	d.ctx = app.BaseApp.NewUncachedContext(false, d.header)
	return nil
}

// beginBlock starts block h+1 at a header time chosen so that exactly the wanted identifiers end,
// where the epoch clocks allow it; what actually ended is OBSERVED from the epoch counters and
// reported as the concrete argument.
func (d *feesDriver) beginBlock(want []string, args map[string]interface{}) error {
	app := d.w.App
	wantSet := map[string]bool{}
	for _, id := range want {
		wantSet[id] = true
	}
	prev := d.header.Time
	t := prev.Add(time.Second)
	before := map[string]int64{}
	var latestWanted, earliestUnwanted time.Time
	for _, id := range feesIDs {
		info, _ := app.EpochsKeeper.GetEpochInfo(d.ctx, id)
		before[id] = info.CurrentEpoch
		end := info.CurrentEpochStartTime.Add(info.Duration)
		if wantSet[id] {
			if end.After(latestWanted) {
				latestWanted = end
			}
		} else if earliestUnwanted.IsZero() || end.Before(earliestUnwanted) {
			earliestUnwanted = end
		}
	}
	if len(want) > 0 && !latestWanted.Before(t) {
		t = latestWanted.Add(time.Second)
	}
	_ = earliestUnwanted // an unwanted identifier that is already due ends as well
	// what ends at time t according to the epoch clock (x/epochs: BlockTime().After(start + duration));
	// recorded BEFORE the call so that it is known even if BeginBlock panics
	due := []string{}
	for _, id := range feesIDs {
		info, _ := app.EpochsKeeper.GetEpochInfo(d.ctx, id)
		if t.After(info.CurrentEpochStartTime.Add(info.Duration)) {
			due = append(due, id)
		}
	}
	args["ended"] = due
	args["want"] = want
	args["t"] = t.Unix()
	h := d.header
	h.Height++
	h.Time = t
	h.AppHash = app.LastCommitID().Hash
	app.BeginBlock(abci.RequestBeginBlock{Header: h})
	d.header = h
	d.inBlk = true
	d.ctx = app.BaseApp.NewContext(false, h)
	ended := []string{}
	for _, id := range feesIDs {
		info, _ := app.EpochsKeeper.GetEpochInfo(d.ctx, id)
		if info.CurrentEpoch > before[id] {
			ended = append(ended, id)
		}
	}
	args["ended"] = ended // observed from the epoch counters
	if fmt.Sprint(ended) != fmt.Sprint(due) {
		args["due"] = due
	}
	return nil
}

func (d *feesDriver) payer() (sdk.AccAddress, int) {
	return sdk.AccAddress(d.w.StAddrs[0].Bytes()), 0
}

func (d *feesDriver) call(e BEvent, args map[string]interface{}) error {
	w, ctx := d.w, d.ctx
	k := w.App
	switch e.Ev {
	case "FeeIncome":
		x := d.amt(e, "x")
		path := e.str("path")
		args["x"], args["path"] = NI(x), path
		coins := sdk.NewCoins(sdk.NewCoin(utils.BaseDenom, x))
		from, fi := d.payer()
		if path == "tx" {
			// evmos' dynamic fee checker charges floor(fee / gasLimit) * gasLimit: pay a multiple of the gas limit
			// and caps the price per gas at MaxInt64: keep the price below 2^62
			if x.BigInt().BitLen() > 62 {
				x = sdkmath.NewIntFromBigInt(new(big.Int).Mod(x.BigInt(), new(big.Int).Lsh(big.NewInt(1), 62)))
			}
			x = x.MulRaw(feeTxGas)
			args["x"] = NI(x)
			return d.feeTx(fi, sdk.NewCoins(sdk.NewCoin(utils.BaseDenom, x)))
		}
		return k.BankKeeper.SendCoinsFromAccountToModule(ctx, from, authtypes.FeeCollectorName, coins)
	case "Burn":
		x := d.amt(e, "x")
		args["x"] = NI(x)
		coins := sdk.NewCoins(sdk.NewCoin(utils.BaseDenom, x))
		from, _ := d.payer()
		if err := k.BankKeeper.SendCoinsFromAccountToModule(ctx, from, evmtypes.ModuleName, coins); err != nil {
			return err
		}
		return k.BankKeeper.BurnCoins(ctx, evmtypes.ModuleName, coins)
	case "Delegate":
		s, a, o := e.str("s"), e.str("a"), e.str("o")
		x := sdkmath.NewIntFromBigInt(new(big.Int).Mul(e.big("x"), big.NewInt(d.su.PScale)))
		args["s"], args["a"], args["o"], args["x"] = s, a, o, NI(x)
		aaddr := w.AssetAddr[a].Bytes()
		saddr := w.St(s).Bytes()
		if err := k.AssetsKeeper.PerformDepositOrWithdraw(ctx, &assetskeeper.DepositWithdrawParams{ClientChainLzID: LzID, Action: assetstypes.DepositLST, AssetsAddress: aaddr, StakerAddress: saddr, OpAmount: x}); err != nil {
			return err
		}
		return k.DelegationKeeper.DelegateTo(ctx, &delegationtypes.DelegationOrUndelegationParams{ClientChainID: LzID, Action: assetstypes.DelegateTo, AssetsAddress: aaddr, OperatorAddress: w.Op(o), StakerAddress: saddr, OpAmount: x})
	case "UpdateParams", "UpdateParamsDropped":
		// MsgUpdateParams of x/feedistribution (community tax) and x/exomint (epoch reward), authority = the gov module
		// account, dispatched through the app's message service router to the modules' real msg servers.
		// "UpdateParamsDropped": the same two messages on a branch of state that is never written back (what a tx whose
		// later message fails, a gas simulation or a failed proposal leaves behind): the configured values stay as they were.
		if e.Ev == "UpdateParamsDropped" {
			ctx, _ = ctx.CacheContext()
		}
		mp := d.fc.ModelPrec
		tax := scaleRate(e.big("tax"), mp)
		reward := new(big.Int).Mul(e.big("reward"), d.su.Scale)
		args["tax"], args["reward"] = NB(tax), NB(reward)
		authority := authtypes.NewModuleAddress(govtypes.ModuleName).String()
		dp := k.DistrKeeper.GetParams(ctx)
		dp.CommunityTax = sdkmath.LegacyNewDecFromBigIntWithPrec(tax, 18)
		dmsg := &distrtypes.MsgUpdateParams{Authority: authority, Params: dp}
		if err := dmsg.ValidateBasic(); err != nil {
			return err
		}
		h := k.MsgServiceRouter().Handler(dmsg)
		if h == nil {
			return fmt.Errorf("no handler for %T", dmsg)
		}
		if _, err := h(ctx, dmsg); err != nil {
			return err
		}
		xp := k.ExomintKeeper.GetParams(ctx)
		xp.EpochReward = sdkmath.NewIntFromBigInt(reward)
		xmsg := &exominttypes.MsgUpdateParams{Authority: authority, Params: xp}
		if err := xmsg.ValidateBasic(); err != nil {
			return err
		}
		h = k.MsgServiceRouter().Handler(xmsg)
		if h == nil {
			return fmt.Errorf("no handler for %T", xmsg)
		}
		_, err := h(ctx, xmsg)
		return err
	case "Jail":
		// what x/slashing does for downtime: StakingKeeper.Jail(consAddr). The validator keeps its voting power until the
		// next dogfood epoch end; from now on CalculateUSDValueForStaker returns 0 for every staker of the operator.
		o := e.str("o")
		args["o"] = o
		var oi int
		fmt.Sscanf(o, "o%d", &oi)
		ck, ok := w.ConsKeys[fmt.Sprintf("k%d", oi)]
		if !ok {
			return fmt.Errorf("operator %s has no consensus key", o)
		}
		k.StakingKeeper.Jail(ctx, sdk.ConsAddress(ck.PubKey().Address()))
		return nil
	}
	return fmt.Errorf("unknown event %s", e.Ev)
}

// feeTx delivers a real signed cosmos tx (bank MsgSend of 1 hua to oneself) whose fee is `fee`.
func (d *feesDriver) feeTx(from int, fee sdk.Coins) error {
	app := d.w.App
	priv := d.w.StKeys[from]
	addr := sdk.AccAddress(priv.PubKey().Address().Bytes())
	txCfg := encoding.MakeConfig(exocoreapp.ModuleBasics).TxConfig
	msg := banktypes.NewMsgSend(addr, addr, sdk.NewCoins(sdk.NewCoin(utils.BaseDenom, sdkmath.NewInt(1))))
	tb := txCfg.NewTxBuilder()
	tb.SetGasLimit(feeTxGas)
	tb.SetFeeAmount(fee)
	if err := tb.SetMsgs(msg); err != nil {
		return err
	}
	acc := app.AccountKeeper.GetAccount(d.ctx, addr)
	seq := acc.GetSequence()
	mode := txCfg.SignModeHandler().DefaultMode()
	sig := signing.SignatureV2{PubKey: priv.PubKey(), Data: &signing.SingleSignatureData{SignMode: mode}, Sequence: seq}
	if err := tb.SetSignatures(sig); err != nil {
		return err
	}
	sd := authsigning.SignerData{ChainID: d.header.ChainID, AccountNumber: acc.GetAccountNumber(), Sequence: seq}
	sig, err := clienttx.SignWithPrivKey(mode, sd, tb, priv, txCfg, seq)
	if err != nil {
		return err
	}
	if err := tb.SetSignatures(sig); err != nil {
		return err
	}
	tx := tb.GetTx()
	bz, err := txCfg.TxEncoder()(tx)
	if err != nil {
		return err
	}
	res := app.BaseApp.DeliverTx(abci.RequestDeliverTx{Tx: bz})
	if res.Code != 0 {
		return fmt.Errorf("deliver tx: code %d: %s", res.Code, res.Log)
	}
	return nil
}

// ---------------------------------------------------------------------------------------------
// projection

func decOf(cs sdk.DecCoins) Num { return ND(cs.AmountOf(utils.BaseDenom)) }

func otherDenoms(cs sdk.DecCoins) bool {
	for _, c := range cs {
		if c.Denom != utils.BaseDenom {
			return true
		}
	}
	return false
}

func (d *feesDriver) opModelOfVal(bz []byte) string {
	if m, ok := d.w.OpModel[sdk.AccAddress(bz).String()]; ok {
		return m
	}
	return "x" + hexOf(bz)
}

func (d *feesDriver) project() map[string]interface{} {
	w := d.w
	k := w.App
	ctx, _ := d.ctx.CacheContext()
	st := map[string]interface{}{"h": d.header.Height, "t": d.header.Time.Unix(), "inBlock": d.inBlk}
	bal := func(mod string) Num {
		return NI(k.BankKeeper.GetBalance(ctx, k.AccountKeeper.GetModuleAddress(mod), utils.BaseDenom).Amount)
	}
	st["supply"] = NI(k.BankKeeper.GetSupply(ctx, utils.BaseDenom).Amount)
	st["fc"] = bal(authtypes.FeeCollectorName)
	st["mint"] = bal(exominttypes.ModuleName)
	st["dist"] = bal(distrtypes.ModuleName)
	other := false
	// the books: raw scans of the feedistribution store
	store := ctx.KVStore(k.GetKey(distrtypes.StoreKey))
	cp := N64(0)
	if bz := store.Get(distrtypes.FeePoolKey); bz != nil {
		var fp distrtypes.FeePool
		k.AppCodec().MustUnmarshal(bz, &fp)
		cp = decOf(fp.CommunityPool)
		other = other || otherDenoms(fp.CommunityPool)
	}
	st["cp"] = cp
	comm := []map[string]interface{}{}
	it := sdk.KVStorePrefixIterator(store, distrtypes.ValidatorAccumulatedCommissionPrefix)
	for ; it.Valid(); it.Next() {
		var v distrtypes.ValidatorAccumulatedCommission
		k.AppCodec().MustUnmarshal(it.Value(), &v)
		comm = append(comm, map[string]interface{}{"o": d.opModelOfVal(it.Key()[2:]), "v": decOf(v.Commission)})
		other = other || otherDenoms(v.Commission)
	}
	it.Close()
	st["comm"] = comm
	outst := []map[string]interface{}{}
	it = sdk.KVStorePrefixIterator(store, distrtypes.ValidatorOutstandingRewardsPrefix)
	for ; it.Valid(); it.Next() {
		var v distrtypes.ValidatorOutstandingRewards
		k.AppCodec().MustUnmarshal(it.Value(), &v)
		outst = append(outst, map[string]interface{}{"o": d.opModelOfVal(it.Key()[2:]), "v": decOf(v.Rewards)})
		other = other || otherDenoms(v.Rewards)
	}
	it.Close()
	st["outst"] = outst
	srew := []map[string]interface{}{}
	it = sdk.KVStorePrefixIterator(store, distrtypes.StakerOutstandingRewardsPrefix)
	for ; it.Valid(); it.Next() {
		var v distrtypes.StakerOutstandingRewards
		k.AppCodec().MustUnmarshal(it.Value(), &v)
		sid := string(it.Key()[2:])
		m, ok := w.StakerModel[sid]
		if !ok {
			m = "x" + sid
		}
		srew = append(srew, map[string]interface{}{"s": m, "v": decOf(v.Rewards)})
		other = other || otherDenoms(v.Rewards)
	}
	it.Close()
	st["srew"] = srew
	// stray entries under the unused "current rewards" prefix
	ncur := 0
	it = sdk.KVStorePrefixIterator(store, distrtypes.ValidatorCurrentRewardsPrefix)
	for ; it.Valid(); it.Next() {
		ncur++
	}
	it.Close()
	st["ncur"] = ncur
	st["otherDenoms"] = other

	// the environment the allocation reads
	env := map[string]interface{}{}
	// the CONFIGURED parameters are what the stores hold (read raw, not through the keepers' getters: a getter that
	// answers from memory would otherwise define its own truth)
	var dp distrtypes.Params
	var mp exominttypes.Params
	k.AppCodec().MustUnmarshal(store.Get(distrtypes.KeyPrefixParams), &dp)
	k.AppCodec().MustUnmarshal(ctx.KVStore(k.GetKey(exominttypes.StoreKey)).Get(exominttypes.KeyPrefixParams()), &mp)
	env["tax"], env["distId"] = ND(dp.CommunityTax), dp.EpochIdentifier
	env["reward"], env["mintId"], env["mintDenom"] = NI(mp.EpochReward), mp.EpochIdentifier, mp.MintDenom
	env["ltp"] = NI(k.StakingKeeper.GetLastTotalPower(ctx))
	vals := []map[string]interface{}{}
	chain := avstypes.ChainIDWithoutRevision(ctx.ChainID())
	for _, v := range k.StakingKeeper.GetAllExocoreValidators(ctx) {
		o := ""
		if pk, err := v.ConsPubKey(); err == nil {
			if vd, found := k.StakingKeeper.ValidatorByConsAddrForChainID(ctx, sdk.GetConsAddress(pk), chain); found {
				o = d.opModelOfVal(vd.GetOperator())
			}
		}
		vals = append(vals, map[string]interface{}{"o": o, "pw": N64(v.Power)})
	}
	env["vals"] = vals
	rate := []map[string]interface{}{}
	ent := []map[string]interface{}{}
	for i, oa := range w.OpAddrs {
		om := fmt.Sprintf("o%d", i+1)
		if info, err := k.OperatorKeeper.OperatorInfo(ctx, oa.String()); err == nil {
			rate = append(rate, map[string]interface{}{"o": om, "v": ND(info.Commission.Rate)})
		}
		ent = append(ent, map[string]interface{}{"o": om, "e": d.entries(ctx, oa)})
	}
	env["rate"], env["ent"] = rate, ent
	ep := map[string]int64{}
	for _, id := range feesIDs {
		info, _ := k.EpochsKeeper.GetEpochInfo(ctx, id)
		ep[id] = info.CurrentEpoch
	}
	env["ep"] = ep
	st["env"] = env
	return st
}

// entries re-reads, through the same keeper getters, the inputs AllocateTokensToStakers collects
// for an operator: one (staker, power) per (opted-in AVS, AVS asset, staker listed for that asset).
func (d *feesDriver) entries(ctx sdk.Context, op sdk.AccAddress) []map[string]interface{} {
	k := d.w.App
	out := []map[string]interface{}{}
	avsList, err := k.OperatorKeeper.GetOptedInAVSForOperator(ctx, op.String())
	if err != nil {
		return out
	}
	for _, avs := range avsList {
		assets, err := k.AVSManagerKeeper.GetAVSSupportedAssets(ctx, avs)
		if err != nil {
			continue
		}
		ids := []string{}
		for id := range assets {
			ids = append(ids, id)
		}
		sort.Strings(ids)
		for _, id := range ids {
			sl, err := k.DelegationKeeper.GetStakersByOperator(ctx, op.String(), id)
			if err != nil {
				continue
			}
			for _, s := range sl.Stakers {
				p, err := k.OperatorKeeper.CalculateUSDValueForStaker(ctx, s, avs, op.Bytes())
				if err != nil {
					continue
				}
				m, ok := d.w.StakerModel[s]
				if !ok {
					m = "x" + s
				}
				out = append(out, map[string]interface{}{"s": m, "p": ND(p), "avs": avs, "a": d.w.AssetModel[id]})
			}
		}
	}
	return out
}
