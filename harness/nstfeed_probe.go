// Throw-away probes of the nstfeed family (hypotheses about the real code before modelling).
package main

import (
	"fmt"
	"math/big"

	"github.com/ethereum/go-ethereum/common"

	oraclekeeper "github.com/ExocoreNetwork/exocore/x/oracle/keeper"
)

func nstProbeWorld(dec uint32) *World {
	gc := DefaultGenCfg()
	gc.NOperators = 2
	gc.NStakers = 4
	gc.Assets = []AssetCfg{{ID: "lst", Decimals: 0, Price: "1", PriceDec: 0}, {ID: "nst", Decimals: dec, Price: "", PriceDec: 0, NST: true}}
	gc.Validators = []ValCfg{{Op: 0, Power: 100}}
	w := NewWorld(gc)
	prm, _ := w.App.AssetsKeeper.GetParams(w.Ctx)
	prm.ExocoreLzAppAddress = gatewayAddr.String()
	must(w.App.AssetsKeeper.SetParams(w.Ctx, prm))
	return w
}

func runNstProbe(args []string) int {
	w := nstProbeWorld(0)
	ctx, _ := w.Ctx.CacheContext()
	aid := w.AssetID["nst"]
	fmt.Println("nst assetID", aid)
	show := func(tag string) {
		sl := w.App.OracleKeeper.GetStakerList(ctx, aid)
		fmt.Println(" ", tag, "list", sl.StakerAddrs)
		for i := 1; i <= 2; i++ {
			s := fmt.Sprintf("s%d", i)
			info, err := w.App.AssetsKeeper.GetStakerSpecifiedAssetInfo(ctx, w.StakerID[s], aid)
			si := w.App.OracleKeeper.GetStakerInfo(ctx, aid, common.BytesToAddress(w.St(s).Bytes()).Hex())
			_ = si
			si2 := w.App.OracleKeeper.GetStakerInfo(ctx, aid, "0x"+hexOf(w.St(s).Bytes()))
			if err == nil {
				fmt.Printf("    %s dep=%s wd=%s  info: idx=%d vals=%v nbal=%d", s, info.TotalDepositAmount, info.WithdrawableAmount, si2.StakerIndex, si2.ValidatorPubkeyList, len(si2.BalanceList))
				if n := len(si2.BalanceList); n > 0 {
					fmt.Printf(" last=%+v", *si2.BalanceList[n-1])
				}
				fmt.Println()
			} else {
				fmt.Printf("    %s (no row: %v) nbal=%d\n", s, err, len(si2.BalanceList))
			}
		}
	}
	call := func(m, s string, pk byte, x int64) {
		ok, err := RunPrecompile(w, ctx, AssetsPrecompileAddr, gatewayAddr, common.Hash{}, m, uint32(LzID), []byte{pk, 1, 2}, leftAligned32(w.St(s).Bytes()), big.NewInt(x))
		fmt.Printf("%s %s pk=%d x=%d -> ok=%v err=%v\n", m, s, pk, x, ok, err)
		show("after")
	}
	call("depositNST", "s1", 1, 33)
	call("withdrawNST", "s1", 1, 32)
	call("withdrawNST", "s1", 1, 1)
	call("depositNST", "s2", 2, 5)
	call("depositNST", "s1", 3, 40)
	call("withdrawNST", "s1", 3, 35)
	call("withdrawNST", "s1", 3, 5)

	// parse probes
	pp := func(name string, raw []byte, n int) {
		var l []string
		for i := 0; i < n; i++ {
			l = append(l, fmt.Sprintf("a%d", i))
		}
		ch, err, pan := oraclekeeper.VerifParseBalanceChange(raw, l)
		fmt.Printf("parse %-28s n=%d -> %v err=%v panic=%q\n", name, n, ch, err, pan)
	}
	bm := func(bits ...int) []byte {
		b := make([]byte, 32)
		for _, i := range bits {
			b[i/8] |= 1 << (7 - i%8)
		}
		return b
	}
	pp("empty-bitmap", bm(), 2)
	pp("bit0-nostream", bm(0), 2)
	pp("bit0-L1neg", append(bm(0), 0b00011000), 2)
	pp("bit2-list2", append(bm(2), 0b00011000), 2)
	pp("bit0-L0", append(bm(0), 0b00000000), 2)
	pp("bit0-L15-trunc", append(bm(0), 0b11110111), 2)
	pp("bit0,1-one-byte", append(bm(0, 1), 0b00010000), 2)
	pp("bit255", append(bm(255), 0b00010000), 2)
	digits := []byte("10000000000000000000000000000000" + "88888888888888888888888888888888888888888888888888888888888888888")
	pp("digits-97", digits, 2)
	pp("digits-97", digits, 252)
	pp("digits-97", digits, 251)
	pp("digits-32", digits[:32], 252)
	pp("digits-33", digits[:33], 252)
	return 0
}

func init() { commands["nstfeed-probe"] = runNstProbe }
