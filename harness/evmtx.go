// EvmTx family driver (abci-mode): executes TLC-generated behaviours of MC_EvmTx against the
// real application.  Every model transaction (a record of CLASSES) is concretised against the
// current real state into a signed Ethereum transaction (legacy / access-list / dynamic-fee) and
// delivered through app.DeliverTx; block boundaries are real EndBlock/Commit/BeginBlock.  After
// every event the driver logs the projection of spec/EvmTx.tla (auth sequences, bank balances of
// senders / fixture contracts / precompile / fee collector, block gas meter, base fee, slot 0 of
// the fixture contracts, the x/assets staking total) plus one digest per module store, for trace
// validation by spec/Trace_EvmTx.tla (property C19).
package main

import (
	"crypto/sha256"
	"encoding/hex"
	"encoding/json"
	"flag"
	"fmt"
	"math/big"
	"math/rand"
	"os"
	"reflect"
	"sort"
	"strings"
	"time"
	"unsafe"

	errorsmod "cosmossdk.io/errors"
	sdkmath "cosmossdk.io/math"
	abci "github.com/cometbft/cometbft/abci/types"
	tmproto "github.com/cometbft/cometbft/proto/tendermint/types"
	"github.com/cosmos/cosmos-sdk/baseapp"
	"github.com/cosmos/cosmos-sdk/client"
	codectypes "github.com/cosmos/cosmos-sdk/codec/types"
	"github.com/cosmos/cosmos-sdk/store/rootmulti"
	"github.com/cosmos/gogoproto/proto"
	storetypes "github.com/cosmos/cosmos-sdk/store/types"
	sdk "github.com/cosmos/cosmos-sdk/types"
	authtx "github.com/cosmos/cosmos-sdk/x/auth/tx"
	authtypes "github.com/cosmos/cosmos-sdk/x/auth/types"
	"github.com/ethereum/go-ethereum/accounts/abi"
	"github.com/ethereum/go-ethereum/common"
	"github.com/ethereum/go-ethereum/core"
	ethtypes "github.com/ethereum/go-ethereum/core/types"
	"github.com/ethereum/go-ethereum/crypto"
	"github.com/evmos/evmos/v16/crypto/ethsecp256k1"
	"github.com/evmos/evmos/v16/encoding"
	evmtypes "github.com/evmos/evmos/v16/x/evm/types"
	feemarkettypes "github.com/evmos/evmos/v16/x/feemarket/types"

	exocoreapp "github.com/ExocoreNetwork/exocore/app"
	testtx "github.com/ExocoreNetwork/exocore/testutil/tx"
	"github.com/ExocoreNetwork/exocore/utils"
	assetskeeper "github.com/ExocoreNetwork/exocore/x/assets/keeper"
	assetstypes "github.com/ExocoreNetwork/exocore/x/assets/types"
	avstypes "github.com/ExocoreNetwork/exocore/x/avs/types"
	delegationtypes "github.com/ExocoreNetwork/exocore/x/delegation/types"
	exoevmtypes "github.com/ExocoreNetwork/exocore/x/evm/types"
)

type EvmWorldCfg struct {
	Name        string `json:"name"`
	NoBaseFee   bool   `json:"noBaseFee"`
	BaseFee     string `json:"baseFee"`     // integer
	MinGasPrice string `json:"minGasPrice"` // LegacyDec literal, e.g. "10.5"
	MinGasMult  string `json:"minGasMult"`  // LegacyDec literal, e.g. "0.5"
	MaxGas      int64  `json:"maxGas"`      // consensus Block.MaxGas; 0 = unlimited (-1)
	Gateway     string `json:"gateway"`     // "gw" (fixture contract) or "a1".."a3"
	BigGas      uint64 `json:"bigGas"`      // the "big" gas limit class
	Devs        []string `json:"devs"`      // deviations (spec/EvmTx.tla DEVS) the strict lane assumes; header only
}

type evmDriver struct {
	w       *World
	wc      EvmWorldCfg
	rng     *rand.Rand
	hdr     tmproto.Header
	chainID *big.Int
	txCfg   client.TxConfig
	deploy  *ethsecp256k1.PrivKey
	addr    map[string]common.Address // model party -> address
	keys    map[string]*ethsecp256k1.PrivKey
	created []common.Address
	fcAddr  sdk.AccAddress
	depABI  abi.ABI
	dlgABI  abi.ABI
	avsABI  abi.ABI
	avsSeq  int
	lzNonce uint64
	lastBatch []builtTx // messages of the latest Batch event (for ReplayLast)
	tracked map[string]bool // hex(address bytes) of every projected party
}

const depositABI = `[{"inputs":[{"internalType":"uint32","name":"clientChainID","type":"uint32"},{"internalType":"bytes","name":"assetsAddress","type":"bytes"},{"internalType":"bytes","name":"stakerAddress","type":"bytes"},{"internalType":"uint256","name":"opAmount","type":"uint256"}],"name":"depositLST","outputs":[{"internalType":"bool","name":"success","type":"bool"},{"internalType":"uint256","name":"latestAssetState","type":"uint256"}],"stateMutability":"nonpayable","type":"function"}]`

const delegationABI = `[{"inputs":[{"internalType":"uint32","name":"clientChainID","type":"uint32"},{"internalType":"uint64","name":"lzNonce","type":"uint64"},{"internalType":"bytes","name":"assetsAddress","type":"bytes"},{"internalType":"bytes","name":"stakerAddress","type":"bytes"},{"internalType":"bytes","name":"operatorAddr","type":"bytes"},{"internalType":"uint256","name":"opAmount","type":"uint256"}],"name":"delegate","outputs":[{"internalType":"bool","name":"success","type":"bool"}],"stateMutability":"nonpayable","type":"function"},{"inputs":[{"internalType":"uint32","name":"clientChainID","type":"uint32"},{"internalType":"uint64","name":"lzNonce","type":"uint64"},{"internalType":"bytes","name":"assetsAddress","type":"bytes"},{"internalType":"bytes","name":"stakerAddress","type":"bytes"},{"internalType":"bytes","name":"operatorAddr","type":"bytes"},{"internalType":"uint256","name":"opAmount","type":"uint256"}],"name":"undelegate","outputs":[{"internalType":"bool","name":"success","type":"bool"}],"stateMutability":"nonpayable","type":"function"}]`

var precompileDelegation = common.HexToAddress("0x0000000000000000000000000000000000000805")

var precompileAssets = common.HexToAddress("0x0000000000000000000000000000000000000804")

// ---------------------------------------------------------------------------------------------
// a ten-line assembler for the fixture contracts

type asm struct {
	code   []byte
	labels map[string]int
	fixups map[int]string
}

func newAsm() *asm { return &asm{labels: map[string]int{}, fixups: map[int]string{}} }
func (a *asm) op(b ...byte) *asm { a.code = append(a.code, b...); return a }
func (a *asm) push1(v byte) *asm { return a.op(0x60, v) }
func (a *asm) push2(v int) *asm  { return a.op(0x61, byte(v>>8), byte(v)) }
func (a *asm) pushL(l string) *asm {
	a.fixups[len(a.code)+1] = l
	return a.op(0x61, 0, 0)
}
func (a *asm) label(l string) *asm { a.labels[l] = len(a.code); return a.op(0x5b) }
func (a *asm) bytes() []byte {
	for pos, l := range a.fixups {
		t, ok := a.labels[l]
		if !ok {
			panic("asm: unknown label " + l)
		}
		a.code[pos], a.code[pos+1] = byte(t>>8), byte(t)
	}
	return a.code
}

const (
	opSTOP, opADD, opSUB, opEQ                     = 0x00, 0x01, 0x03, 0x14
	opCALLDATALOAD, opCALLDATASIZE, opCALLDATACOPY = 0x35, 0x36, 0x37
	opCODECOPY, opPOP, opSSTORE, opJUMP, opJUMPI   = 0x39, 0x50, 0x55, 0x56, 0x57
	opGAS, opDUP1, opDUP3, opCALL, opRETURN        = 0x5a, 0x80, 0x82, 0xf1, 0xf3
	opREVERT                                       = 0xfd
	opISZERO, opMLOAD, opMSTORE                    = 0x15, 0x51, 0x52
)

// "c": SSTORE(0, word0); word1 = 1 -> REVERT, 2 -> loop forever, else STOP
func codeStore() []byte {
	a := newAsm()
	a.push1(0).op(opCALLDATALOAD).push1(0).op(opSSTORE)
	a.push1(0x20).op(opCALLDATALOAD)
	a.op(opDUP1).push1(1).op(opEQ).pushL("rev").op(opJUMPI)
	a.op(opDUP1).push1(2).op(opEQ).pushL("loop").op(opJUMPI)
	a.op(opSTOP)
	a.label("rev").push1(0).push1(0).op(opREVERT)
	a.label("loop").pushL("loop").op(opJUMP)
	return a.bytes()
}

// "gw": flag = CALL(address in word1, calldata[64:]);
//   word0 = 1 -> REVERT with the flag as return data; else flag = 0 -> REVERT (failure propagates), else STOP
func codeGateway() []byte {
	a := newAsm()
	a.push1(0x40).op(opCALLDATASIZE).op(opSUB) // size
	a.op(opDUP1).push1(0x40).push1(0).op(opCALLDATACOPY)
	a.push1(0).push1(0).op(opDUP3).push1(0).push1(0).push1(0x20).op(opCALLDATALOAD).op(opGAS).op(opCALL)
	a.push1(0).op(opCALLDATALOAD).push1(1).op(opEQ).pushL("rev").op(opJUMPI)
	a.op(opISZERO).pushL("fail").op(opJUMPI)
	a.op(opSTOP)
	a.label("rev").push2(0x0400).op(opMSTORE).push1(0x20).push2(0x0400).op(opREVERT)
	a.label("fail").push1(0).push1(0).op(opREVERT)
	return a.bytes()
}

// "w": flag = CALL(gw, calldata) with 32 bytes of return data at 0x400;
//   SSTORE(0, flag+1); SSTORE(1, returned word + 1); STOP
//   slot 0: 2 = the gateway frame succeeded, 1 = it reverted
//   slot 1: 2 = the reverted gateway frame reported that its precompile call had succeeded
func codeWrapper(gw common.Address) []byte {
	a := newAsm()
	a.op(opCALLDATASIZE).push1(0).push1(0).op(opCALLDATACOPY)
	a.push1(0x20).push2(0x0400).op(opCALLDATASIZE).push1(0).push1(0)
	a.op(0x73).op(gw.Bytes()...).op(opGAS).op(opCALL)
	a.push1(1).op(opADD).push1(0).op(opSSTORE)
	a.push2(0x0400).op(opMLOAD).push1(1).op(opADD).push1(1).op(opSSTORE)
	a.op(opSTOP)
	return a.bytes()
}

// init code returning `runtime`
func initFor(runtime []byte) []byte {
	a := newAsm()
	n := len(runtime)
	// PUSH2 n PUSH2 off PUSH1 0 CODECOPY PUSH2 n PUSH1 0 RETURN  = 3+3+2+1+3+2+1 = 15 bytes
	a.push2(n).push2(15).push1(0).op(opCODECOPY).push2(n).push1(0).op(opRETURN)
	return append(a.bytes(), runtime...)
}

// creation payloads of "new" transactions
func initNew(mode string) []byte {
	a := newAsm()
	switch mode {
	case "rev":
		a.push1(7).push1(0).op(opSSTORE).push1(0).push1(0).op(opREVERT)
	case "oog":
		a.label("l").pushL("l").op(opJUMP)
	default:
		a.push1(7).push1(0).op(opSSTORE).push1(1).push1(0).op(opRETURN)
	}
	return a.bytes()
}

// creation payload of "newp" transactions: the constructor copies `input` (appended behind the code) to memory,
// CALLs the precompile with it (32 bytes of return data at 0x1000), REVERTs by itself when the call failed or
// did not return true, and then, by mode: returns a one-byte runtime ("ok"), REVERTs ("rev") or loops ("oog")
func initNewP(precompile common.Address, input []byte, mode string) []byte {
	build := func(off int) []byte {
		a := newAsm()
		n := len(input)
		a.push2(n).push2(off).push1(0).op(opCODECOPY)
		a.push1(0x20).push2(0x1000).push2(n).push1(0).push1(0).op(0x73).op(precompile.Bytes()...).op(opGAS).op(opCALL)
		a.op(opISZERO).pushL("fail").op(opJUMPI)
		a.push2(0x1000).op(opMLOAD).push1(1).op(opEQ).op(opISZERO).pushL("fail").op(opJUMPI)
		switch mode {
		case "rev":
			a.push1(0).push1(0).op(opREVERT)
		case "oog":
			a.label("l").pushL("l").op(opJUMP)
		default:
			a.push1(1).push2(0x2000).op(opRETURN)
		}
		a.label("fail").push1(0).push1(0).op(opREVERT)
		return a.bytes()
	}
	code := build(len(build(0)))
	return append(code, input...)
}

const registerAVSABI = `[{"inputs": [{"internalType": "address", "name": "sender", "type": "address"}, {"internalType": "string", "name": "avsName", "type": "string"}, {"internalType": "uint64", "name": "minStakeAmount", "type": "uint64"}, {"internalType": "address", "name": "taskAddr", "type": "address"}, {"internalType": "address", "name": "slashAddr", "type": "address"}, {"internalType": "address", "name": "rewardAddr", "type": "address"}, {"internalType": "string[]", "name": "avsOwnerAddress", "type": "string[]"}, {"internalType": "string[]", "name": "assetIds", "type": "string[]"}, {"internalType": "uint64", "name": "avsUnbondingPeriod", "type": "uint64"}, {"internalType": "uint64", "name": "minSelfDelegation", "type": "uint64"}, {"internalType": "string", "name": "epochIdentifier", "type": "string"}, {"internalType": "uint64[]", "name": "params", "type": "uint64[]"}], "name": "registerAVS", "outputs": [{"internalType": "bool", "name": "success", "type": "bool"}], "stateMutability": "nonpayable", "type": "function"}]`

var precompileAVS = common.HexToAddress("0x0000000000000000000000000000000000000901")

// ---------------------------------------------------------------------------------------------

func runEvmTx(args []string) int {
	fs := flag.NewFlagSet("evmtx", flag.ExitOnError)
	in := fs.String("in", "", "behaviours (ndjson of event arrays)")
	out := fs.String("out", "", "trace output (ndjson)")
	seed := fs.Int64("seed", 1, "seed")
	cfgS := fs.String("cfg", "", "EvmWorldCfg JSON")
	fs.Parse(args)
	var wc EvmWorldCfg
	must(json.Unmarshal([]byte(*cfgS), &wc))
	if wc.BigGas == 0 {
		wc.BigGas = 400000
	}
	d := newEvmDriver(wc, *seed)
	tw := NewTraceWriter(*out)
	defer tw.Close()
	behaviours := ReadBehaviours(*in)
	for bi, b := range behaviours {
		d.newBlock()
		tw.Emit(map[string]interface{}{"ev": "reset", "b": bi, "cfg": d.cfgJSON(), "st": d.project(), "dg": d.digests()})
		for _, e := range b {
			d.exec(e, tw)
		}
	}
	fmt.Printf("evmtx[%s]: behaviours=%d events=%d height=%d\n", wc.Name, len(behaviours), tw.n, d.hdr.Height)
	return 0
}

func init() { commands["evmtx"] = runEvmTx }

func newEvmDriver(wc EvmWorldCfg, seed int64) *evmDriver {
	gc := DefaultGenCfg()
	gc.NOperators = 1
	gc.NStakers = 3
	gc.Assets = []AssetCfg{{ID: "lst", Decimals: 0, Price: "1", PriceDec: 0}}
	gc.Validators = []ValCfg{{Op: 0, Power: 100}}
	gc.GenesisMut = func(w *World, gs map[string]json.RawMessage) {
		cdc := w.App.AppCodec()
		fm := feemarkettypes.DefaultGenesisState()
		fm.Params.NoBaseFee = wc.NoBaseFee
		bf, ok := sdkmath.NewIntFromString(wc.BaseFee)
		if !ok {
			panic("bad baseFee")
		}
		fm.Params.BaseFee = bf
		fm.Params.MinGasPrice = sdkmath.LegacyMustNewDecFromStr(wc.MinGasPrice)
		fm.Params.MinGasMultiplier = sdkmath.LegacyMustNewDecFromStr(wc.MinGasMult)
		gs[feemarkettypes.ModuleName] = cdc.MustMarshalJSON(fm)
		eg := evmtypes.DefaultGenesisState()
		eg.Params = exoevmtypes.ExocoreEvmDefaultParams()
		gs[evmtypes.ModuleName] = cdc.MustMarshalJSON(eg)
	}
	// Block.MaxGas is fixed inside NewWorld (shared file): set it through the exported default
	if wc.MaxGas > 0 {
		exocoreapp.DefaultConsensusParams.Block.MaxGas = wc.MaxGas
	} else {
		exocoreapp.DefaultConsensusParams.Block.MaxGas = -1
	}
	w := NewWorld(gc)
	d := &evmDriver{w: w, wc: wc, rng: rand.New(rand.NewSource(seed)), hdr: w.Header,
		addr: map[string]common.Address{}, keys: map[string]*ethsecp256k1.PrivKey{}, tracked: map[string]bool{}}
	d.chainID = w.App.EvmKeeper.ChainID()
	d.txCfg = encoding.MakeConfig(exocoreapp.ModuleBasics).TxConfig
	for i, k := range w.StKeys {
		m := fmt.Sprintf("a%d", i+1)
		d.keys[m] = k
		d.addr[m] = w.StAddrs[i]
	}
	d.deploy = w.OpKeys[0]
	d.addr["pre"] = precompileAssets
	d.fcAddr = w.App.AccountKeeper.GetModuleAddress(authtypes.FeeCollectorName)
	var err error
	d.depABI, err = abi.JSON(strings.NewReader(depositABI))
	must(err)
	d.dlgABI, err = abi.JSON(strings.NewReader(delegationABI))
	must(err)
	d.avsABI, err = abi.JSON(strings.NewReader(registerAVSABI))
	must(err)
	d.setup()
	for _, a := range d.addr {
		d.tracked[hex.EncodeToString(a.Bytes())] = true
	}
	d.tracked[hex.EncodeToString(d.fcAddr.Bytes())] = true
	d.tracked[hex.EncodeToString(AddrOf(d.deploy).Bytes())] = true
	return d
}

// deliver-state context of the running block (BaseApp.deliverState is unexported; read-only use)
func deliverCtx(app *baseapp.BaseApp) sdk.Context {
	v := reflect.ValueOf(app).Elem().FieldByName("deliverState")
	p := reflect.NewAt(v.Type(), unsafe.Pointer(v.UnsafeAddr())).Elem()
	c := p.Elem().FieldByName("ctx")
	return reflect.NewAt(c.Type(), unsafe.Pointer(c.UnsafeAddr())).Elem().Interface().(sdk.Context)
}

// the application's ante handler (BaseApp.anteHandler is unexported; used read-only to evaluate mempool
// admission of a tx against the SAME state DeliverTx is about to meet, on a discarded cache context)
func anteOf(app *baseapp.BaseApp) sdk.AnteHandler {
	v := reflect.ValueOf(app).Elem().FieldByName("anteHandler")
	return reflect.NewAt(v.Type(), unsafe.Pointer(v.UnsafeAddr())).Elem().Interface().(sdk.AnteHandler)
}

// checkAdmission runs the ante handler in CheckTx mode on a cache of the deliver state; returns the ABCI code
func (d *evmDriver) checkAdmission(bz []byte) (code int, log string) {
	defer func() {
		if r := recover(); r != nil {
			code, log = 111222, fmt.Sprint(r)
		}
	}()
	tx, err := d.txCfg.TxDecoder()(bz)
	if err != nil {
		return 2, err.Error()
	}
	abciCode := func(err error) (int, string) {
		space, c, l := errorsmod.ABCIInfo(err, false)
		code := int(c)
		if space != "" && space != "sdk" && space != "undefined" {
			code += 1000
		}
		return code, l
	}
	// baseapp.runTx: validateBasicTxMsgs before the ante handler
	for _, m := range tx.GetMsgs() {
		if err := m.ValidateBasic(); err != nil {
			return abciCode(err)
		}
	}
	cctx, _ := deliverCtx(d.w.App.BaseApp).CacheContext()
	cctx = cctx.WithIsCheckTx(true).WithTxBytes(bz).WithGasMeter(sdk.NewInfiniteGasMeter()).WithEventManager(sdk.NewEventManager())
	_, err = anteOf(d.w.App.BaseApp)(cctx, tx, false)
	if err == nil {
		return 0, ""
	}
	return abciCode(err)
}

func (d *evmDriver) ctx() sdk.Context {
	return deliverCtx(d.w.App.BaseApp).WithGasMeter(sdk.NewInfiniteGasMeter())
}

func (d *evmDriver) newBlock() {
	app := d.w.App
	app.EndBlock(abci.RequestEndBlock{Height: d.hdr.Height})
	app.Commit()
	d.hdr.Height++
	d.hdr.Time = d.hdr.Time.Add(time.Second)
	d.hdr.AppHash = app.LastCommitID().Hash
	app.BeginBlock(abci.RequestBeginBlock{Header: d.hdr})
}

// deploy the fixture contracts with real transactions and configure the gateway
func (d *evmDriver) setup() {
	dep := AddrOf(d.deploy)
	mk := func(name string, runtime []byte) {
		ctx := d.ctx()
		nonce := d.w.App.EvmKeeper.GetNonce(ctx, dep)
		bf := d.baseFee(ctx)
		price := new(big.Int).Add(bf, d.minGasPriceCeil(ctx))
		price.Add(price, big.NewInt(1))
		msg := evmtypes.NewTx(&evmtypes.EvmTxArgs{ChainID: d.chainID, Nonce: nonce, GasLimit: 300000, GasPrice: price, Input: initFor(runtime), Amount: big.NewInt(0)})
		res := d.deliver(msg, d.deploy)
		if res.Code != 0 {
			panic(fmt.Sprintf("fixture %s not deployed: %s", name, res.Log))
		}
		r, err := evmtypes.DecodeTxResponse(res.Data)
		must(err)
		if r.Failed() {
			panic(fmt.Sprintf("fixture %s not deployed: %s", name, r.VmError))
		}
		d.addr[name] = crypto.CreateAddress(dep, nonce)
		if code := d.w.App.EvmKeeper.GetCode(d.ctx(), common.BytesToHash(d.w.App.EvmKeeper.GetAccountOrEmpty(d.ctx(), d.addr[name]).CodeHash)); len(code) != len(runtime) {
			panic("fixture code mismatch for " + name)
		}
	}
	// warm-up: the first value transfer lazily creates the evm module account (x/auth); keep that out of the traces
	{
		ctx := d.ctx()
		warm := common.BytesToAddress(h256("evmtx-warmup")[:20])
		price := new(big.Int).Add(d.baseFee(ctx), d.minGasPriceCeil(ctx))
		price.Add(price, big.NewInt(1))
		msg := evmtypes.NewTx(&evmtypes.EvmTxArgs{ChainID: d.chainID, Nonce: d.w.App.EvmKeeper.GetNonce(ctx, dep), To: &warm, GasLimit: 50000, GasPrice: price, Amount: big.NewInt(12345)})
		if res := d.deliver(msg, d.deploy); res.Code != 0 {
			panic("warm-up transfer failed: " + res.Log)
		}
	}
	// one block per fixture: the deployments must not share a (possibly small) block gas limit
	d.newBlock()
	mk("c", codeStore())
	d.newBlock()
	mk("gw", codeGateway())
	d.newBlock()
	mk("w", codeWrapper(d.addr["gw"]))
	// every sender starts as a staker with a free deposit and a delegation to the fixture operator, so that
	// delegate / undelegate calls have something to work on (keeper calls on the deliver state, setup only)
	for _, m := range []string{"a1", "a2", "a3"} {
		ctx := d.ctx()
		must(d.w.App.AssetsKeeper.PerformDepositOrWithdraw(ctx, &assetskeeper.DepositWithdrawParams{ClientChainLzID: LzID, Action: assetstypes.DepositLST,
			AssetsAddress: d.w.AssetAddr["lst"].Bytes(), StakerAddress: d.addr[m].Bytes(), OpAmount: sdkmath.NewInt(100000)}))
		must(d.w.App.DelegationKeeper.DelegateTo(ctx, &delegationtypes.DelegationOrUndelegationParams{ClientChainID: LzID, Action: assetstypes.DelegateTo,
			AssetsAddress: d.w.AssetAddr["lst"].Bytes(), OperatorAddress: d.w.OpAddrs[0], StakerAddress: d.addr[m].Bytes(), OpAmount: sdkmath.NewInt(50000)}))
	}
	ctx := d.ctx()
	p, err := d.w.App.AssetsKeeper.GetParams(ctx)
	must(err)
	p.ExocoreLzAppAddress = d.addr[d.wc.Gateway].Hex()
	must(d.w.App.AssetsKeeper.SetParams(ctx, p))
}

func (d *evmDriver) baseFee(ctx sdk.Context) *big.Int {
	params := d.w.App.EvmKeeper.GetParams(ctx)
	ethCfg := params.ChainConfig.EthereumConfig(d.chainID)
	b := d.w.App.EvmKeeper.GetBaseFee(ctx, ethCfg)
	if b == nil {
		return big.NewInt(0)
	}
	return new(big.Int).Set(b)
}

func (d *evmDriver) minGasPriceCeil(ctx sdk.Context) *big.Int {
	return d.w.App.FeeMarketKeeper.GetParams(ctx).MinGasPrice.Ceil().TruncateInt().BigInt()
}

func (d *evmDriver) deliver(msg *evmtypes.MsgEthereumTx, priv *ethsecp256k1.PrivKey) abci.ResponseDeliverTx {
	return d.w.App.BaseApp.DeliverTx(abci.RequestDeliverTx{Tx: d.encode(msg, priv)})
}

func (d *evmDriver) encode(msg *evmtypes.MsgEthereumTx, priv *ethsecp256k1.PrivKey) []byte {
	signer := ethtypes.LatestSignerForChainID(d.chainID)
	msg.From = AddrOf(priv).Hex()
	must(msg.Sign(signer, testtx.NewSigner(priv)))
	msg.From = ""
	txb := d.txCfg.NewTxBuilder()
	must(txb.SetMsgs(msg))
	opt, err := codectypes.NewAnyWithValue(&evmtypes.ExtensionOptionsEthereumTx{})
	must(err)
	txb.(authtx.ExtensionOptionsTxBuilder).SetExtensionOptions(opt)
	txb.SetGasLimit(msg.GetGas())
	txb.SetFeeAmount(sdk.Coins{sdk.Coin{Denom: utils.BaseDenom, Amount: sdkmath.NewIntFromBigInt(msg.GetFee())}}.Sort())
	if msg.GetFee().Sign() == 0 {
		txb.SetFeeAmount(sdk.Coins{})
	}
	bz, err := d.txCfg.TxEncoder()(txb.GetTx())
	must(err)
	return bz
}

func (d *evmDriver) cfgJSON() map[string]interface{} {
	fm := d.w.App.FeeMarketKeeper.GetParams(d.ctx())
	return map[string]interface{}{
		"world": d.wc.Name, "accts": []string{"a1", "a2", "a3"}, "contracts": []string{"c", "gw", "w", "pre"},
		"mingp": ND(fm.MinGasPrice), "mult": ND(fm.MinGasMultiplier), "blockgas": d.wc.MaxGas, "gateway": d.wc.Gateway,
		"noBaseFee": fm.NoBaseFee, "devs": append([]string{}, d.wc.Devs...),
	}
}

// ---------------------------------------------------------------------------------------------
// projection

func (d *evmDriver) bal(ctx sdk.Context, a []byte) *big.Int {
	return d.w.App.BankKeeper.GetBalance(ctx, sdk.AccAddress(a), utils.BaseDenom).Amount.BigInt()
}

func (d *evmDriver) project() map[string]interface{} {
	ctx := d.ctx()
	app := d.w.App
	nonce := map[string]uint64{}
	bal := map[string]Num{}
	for _, m := range []string{"a1", "a2", "a3"} {
		acc := app.AccountKeeper.GetAccount(ctx, sdk.AccAddress(d.addr[m].Bytes()))
		if acc != nil {
			nonce[m] = acc.GetSequence()
		}
	}
	for _, m := range []string{"a1", "a2", "a3", "c", "gw", "w", "pre"} {
		bal[m] = NB(d.bal(ctx, d.addr[m].Bytes()))
	}
	sink := big.NewInt(0)
	for _, a := range d.created {
		sink.Add(sink, d.bal(ctx, a.Bytes()))
	}
	stor := map[string]Num{}
	for _, m := range []string{"c", "w"} {
		stor[m] = NB(app.EvmKeeper.GetState(ctx, d.addr[m], common.Hash{}).Big())
	}
	stor["w1"] = NB(app.EvmKeeper.GetState(ctx, d.addr["w"], common.BigToHash(big.NewInt(1))).Big())
	dep := sdkmath.ZeroInt()
	if info, err := app.AssetsKeeper.GetStakingAssetInfo(ctx, d.w.AssetID["lst"]); err == nil {
		dep = info.StakingTotalAmount
	}
	wd, dl := map[string]Num{}, map[string]Num{}
	for _, m := range []string{"a1", "a2", "a3"} {
		wd[m], dl[m] = N64(0), N64(0)
		sid := d.w.StakerID[strings.Replace(m, "a", "s", 1)]
		if info, err := app.AssetsKeeper.GetStakerSpecifiedAssetInfo(ctx, sid, d.w.AssetID["lst"]); err == nil {
			wd[m] = NI(info.WithdrawableAmount)
		}
		if di, err := app.DelegationKeeper.GetSingleDelegationInfo(ctx, sid, d.w.AssetID["lst"], d.w.OpAddrs[0].String()); err == nil && !di.UndelegatableShare.IsNil() {
			dl[m] = NI(di.UndelegatableShare.TruncateInt())
		}
	}
	return map[string]interface{}{
		"wd": wd, "dl": dl, "avs": d.avsCount(ctx),
		"nonce": nonce, "bal": bal, "fc": NB(d.bal(ctx, d.fcAddr)), "sink": NB(sink),
		"bg": deliverCtx(app.BaseApp).BlockGasMeter().GasConsumed(), "bf": NB(d.baseFee(ctx)),
		"stor": stor, "dep": NI(dep), "h": d.hdr.Height,
	}
}

func (d *evmDriver) avsCount(ctx sdk.Context) int {
	n := 0
	d.w.App.AVSManagerKeeper.IterateAVSInfo(ctx, func(_ int64, _ avstypes.AVSInfo) bool { n++; return false })
	return n
}

// one SHA-256 per persistent module store over its sorted (key, value) pairs; entries whose key
// contains the address of a projected party are left out (they are compared field by field)
func (d *evmDriver) digests() map[string]string {
	ctx := d.ctx()
	rs := d.w.App.CommitMultiStore().(*rootmulti.Store)
	out := map[string]string{}
	var names []string
	byName := rs.StoreKeysByName()
	for n := range byName {
		names = append(names, n)
	}
	sort.Strings(names)
	var tracked [][]byte
	for h := range d.tracked {
		b, _ := hex.DecodeString(h)
		tracked = append(tracked, b)
	}
	for _, n := range names {
		key, ok := byName[n].(*storetypes.KVStoreKey)
		if !ok {
			continue
		}
		h := sha256.New()
		it := ctx.KVStore(key).Iterator(nil, nil)
		dump := os.Getenv("VERIF_DUMP") == n
		for ; it.Valid(); it.Next() {
			k := it.Key()
			if dump {
				out["dump:"+hex.EncodeToString(k)] = hex.EncodeToString(it.Value())
			}
			skip := false
			if n == "bank" || n == "acc" || n == "evm" {
				for _, t := range tracked {
					if containsBytes(k, t) {
						skip = true
						break
					}
				}
			}
			if skip {
				continue
			}
			var l [8]byte
			big.NewInt(int64(len(k))).FillBytes(l[:])
			h.Write(l[:])
			h.Write(k)
			big.NewInt(int64(len(it.Value()))).FillBytes(l[:])
			h.Write(l[:])
			h.Write(it.Value())
		}
		it.Close()
		out[n] = hex.EncodeToString(h.Sum(nil))[:16]
	}
	// the storage of the fixture contracts, whole (evm store entries of tracked addresses are excluded above)
	h := sha256.New()
	for _, m := range []string{"c", "gw", "w"} {
		st := d.w.App.EvmKeeper.GetAccountStorage(ctx, d.addr[m])
		for _, s := range st {
			h.Write([]byte(m + s.Key + s.Value))
		}
	}
	out["fixtureStorage"] = hex.EncodeToString(h.Sum(nil))[:16]
	return out
}

func containsBytes(k, t []byte) bool {
	return strings.Contains(string(k), string(t))
}

// ---------------------------------------------------------------------------------------------
// events

func (d *evmDriver) exec(e BEvent, tw *TraceWriter) {
	switch e.Ev {
	case "NewBlock":
		d.newBlock()
		st := d.project()
		tw.Emit(map[string]interface{}{"ev": "NewBlock", "a": map[string]interface{}{"bf": st["bf"], "fc": st["fc"], "wd": st["wd"]}, "st": st, "dg": d.digests(),
			"o": map[string]interface{}{"code": 0, "gu": 0, "vmfail": false}})
	case "Tx":
		d.execTx(e, tw)
	case "Batch":
		d.execBatch(e, tw)
	case "ReplayLast":
		// re-deliver, alone, the identical signed LAST message of the previous Batch (probe for nonce replay)
		if len(d.lastBatch) == 0 {
			panic("ReplayLast without a Batch")
		}
		d.deliverBuilt(d.lastBatch[len(d.lastBatch)-1], e.A, tw)
	default:
		panic("unknown event " + e.Ev)
	}
}

func epad32(b []byte) []byte {
	out := make([]byte, 32)
	copy(out, b)
	return out
}

func word(v *big.Int) []byte { return common.LeftPadBytes(v.Bytes(), 32) }

// builtTx: one model transaction concretised against the current real state
type builtTx struct {
	msg  *evmtypes.MsgEthereumTx
	key  *ethsecp256k1.PrivKey
	t    map[string]interface{} // logged transaction (spec/EvmTx.tla `t`)
	to   string
	k    map[string]json.RawMessage
}

// buildTx turns the classes of e into a concrete transaction; nonceAhead = number of earlier messages of the
// same sender in the same Cosmos tx (their sequence increments are not in the state yet)
func (d *evmDriver) buildTx(e BEvent, nonceAhead map[string]uint64) builtTx {
	ctx := d.ctx()
	app := d.w.App
	s, to, ty, mode := e.str("s"), e.str("to"), e.str("ty"), e.str("mode")
	pc, tc, gl, vc, nc := e.str("pc"), e.str("tc"), e.str("gl"), e.str("vc"), e.str("nc")
	from := d.addr[s]
	balS := d.bal(ctx, from.Bytes())
	seq := app.EvmKeeper.GetNonce(ctx, from) + nonceAhead[s]

	// nonce
	nonce := seq
	switch nc {
	case "ahead":
		nonce = seq + 1 + uint64(d.rng.Intn(3))
	case "behind":
		if seq > 0 {
			nonce = seq - 1
		} else {
			nonce = seq + 2
		}
	}
	// payload
	// word for the storage fixture by class: "zero" clears the slot, "same" rewrites the current value, "new" (default)
	// writes another non-zero value - so that histories set -> clear / set -> same / set -> overwrite / clear -> set arise
	curWord := app.EvmKeeper.GetState(ctx, d.addr["c"], common.Hash{}).Big()
	wordV := big.NewInt(int64(1 + d.rng.Intn(1000000)))
	for wordV.Cmp(curWord) == 0 {
		wordV = big.NewInt(int64(1 + d.rng.Intn(1000000)))
	}
	if to == "c" {
		switch e.str("wc") {
		case "zero":
			wordV = big.NewInt(0)
		case "same":
			wordV = new(big.Int).Set(curWord)
		}
	}
	amt := big.NewInt(int64(1 + d.rng.Intn(1000)))
	var toAddr *common.Address
	var data []byte
	// restaking operation for staker = sender: deposit / delegate / undelegate, amount by class
	opClass := e.str("op")
	if opClass == "" {
		opClass = "dep"
	}
	op := strings.TrimSuffix(opClass, "x")
	pre := d.project()
	avail := func(k string) *big.Int { v := pre[k].(map[string]Num)[s]; return v.b }
	switch opClass {
	case "dlg", "und":
		a := avail(map[string]string{"dlg": "wd", "und": "dl"}[opClass])
		if a.Sign() > 0 {
			amt = new(big.Int).Add(big.NewInt(1), new(big.Int).Rand(d.rng, a))
		} else {
			amt = big.NewInt(1)
		}
	case "dlgx", "undx":
		amt = new(big.Int).Add(avail(map[string]string{"dlgx": "wd", "undx": "dl"}[opClass]), big.NewInt(int64(1+d.rng.Intn(5))))
	}
	preTarget := precompileAssets
	deposit := func() []byte {
		if op == "dep" {
			bz, err := d.depABI.Pack("depositLST", uint32(LzID), epad32(d.w.AssetAddr["lst"].Bytes()), epad32(from.Bytes()), amt)
			must(err)
			return bz
		}
		preTarget = precompileDelegation
		d.lzNonce++
		name := map[string]string{"dlg": "delegate", "und": "undelegate"}[op]
		bz, err := d.dlgABI.Pack(name, uint32(LzID), d.lzNonce, epad32(d.w.AssetAddr["lst"].Bytes()), epad32(from.Bytes()), []byte(d.w.OpAddrs[0].String()), amt)
		must(err)
		return bz
	}
	modeWord := func(m string) []byte {
		switch m {
		case "rev", "irev":
			return word(big.NewInt(1))
		case "oog":
			return word(big.NewInt(2))
		}
		return word(big.NewInt(0))
	}
	switch to {
	case "new":
		data = initNew(mode)
	case "newp":
		// the new contract registers ITSELF as an AVS from its constructor (owner = the tx sender); unique name / task address
		d.avsSeq++
		in, err := d.avsABI.Pack("registerAVS", from, fmt.Sprintf("evmtxAvs%d", d.avsSeq), uint64(3),
			common.BytesToAddress(h256(fmt.Sprintf("evmtx-task-%d", d.avsSeq))[:20]),
			common.HexToAddress("0xDF907c29719154eb9872f021d21CAE6E5025d7aB"), common.HexToAddress("0xDF907c29719154eb9872f021d21CAE6E5025d7aB"),
			[]string{sdk.AccAddress(from.Bytes()).String()}, []string{d.w.AssetID["lst"]}, uint64(3), uint64(3), "day", []uint64{2, 3, 4, 4})
		must(err)
		data = initNewP(precompileAVS, in, mode)
	case "c":
		a := d.addr["c"]
		toAddr = &a
		data = append(word(wordV), modeWord(mode)...)
	case "pre":
		a := d.addr["pre"]
		toAddr = &a
		op = "dep"
		data = deposit()
	case "gw", "w":
		a := d.addr[to]
		toAddr = &a
		payload := deposit()
		data = append(append(modeWord(mode), common.LeftPadBytes(preTarget.Bytes(), 32)...), payload...)
	default:
		a := d.addr[to]
		toAddr = &a
	}
	var accesses *ethtypes.AccessList
	if ty == "al" {
		accesses = &ethtypes.AccessList{{Address: d.addr["c"], StorageKeys: []common.Hash{{}}}}
	}
	if ty == "dyn" {
		accesses = &ethtypes.AccessList{}
	}
	var al ethtypes.AccessList
	if accesses != nil {
		al = *accesses
	}
	intr, err := core.IntrinsicGas(data, al, toAddr == nil, true, true)
	must(err)
	// gas limit
	var gas uint64
	switch gl {
	case "lo":
		gas = intr - 1 - uint64(d.rng.Intn(100))
	case "intr":
		gas = intr
	case "mid":
		gas = intr + 2000 + uint64(d.rng.Intn(2000))
	case "big":
		gas = d.wc.BigGas + uint64(d.rng.Intn(1000))
	case "large":
		gas = d.wc.BigGas*3/4 + uint64(d.rng.Intn(1000))
	case "fit":
		// a tight limit: what a successful execution needs (so that the minimum-gas floor does not bind)
		switch {
		case to == "c":
			// intrinsic + 59 gas of cheap opcodes + the SSTORE (spec/Trace_EvmTx.tla t_FIX)
			gas = intr + 59
			if ty != "al" {
				gas += 2100
			}
			switch {
			case wordV.Cmp(curWord) == 0:
				gas += 100 + 250 // EIP-2200 sentry: more than 2300 gas must be left when SSTORE starts
			case curWord.Sign() == 0:
				gas += 20000
			default:
				gas += 2900
			}
			gas += uint64(d.rng.Intn(3)) * 50
		case toAddr != nil && data == nil:
			gas = intr
		default:
			gas = d.wc.BigGas / 2
		}
	case "huge":
		if d.wc.MaxGas > 0 {
			gas = uint64(d.wc.MaxGas) + 1 + uint64(d.rng.Intn(1000))
		} else {
			gas = d.wc.BigGas
		}
	}
	// price
	bf := d.baseFee(ctx)
	floor := new(big.Int).Set(bf)
	if m := d.minGasPriceCeil(ctx); m.Cmp(floor) > 0 {
		floor = m
	}
	price := new(big.Int).Set(floor)
	switch pc {
	case "below":
		if floor.Sign() > 0 {
			price.Sub(floor, big.NewInt(1))
		}
	case "above":
		price.Add(floor, big.NewInt(int64(1+d.rng.Intn(1000))))
	case "rich":
		price.Quo(balS, new(big.Int).SetUint64(gas))
		price.Add(price, big.NewInt(1))
	}
	tip := new(big.Int).Set(price)
	if ty == "dyn" {
		switch tc {
		case "zero":
			tip = big.NewInt(0)
		case "one":
			// smallest tips that clear the min gas price floor
			tip = big.NewInt(int64(1 + d.rng.Intn(3)))
			if gap := new(big.Int).Sub(floor, bf); gap.Sign() > 0 {
				tip.Add(tip, gap)
			}
			if tip.Cmp(price) > 0 {
				tip = new(big.Int).Set(price)
			}
		case "cap":
		case "over":
			tip = new(big.Int).Add(price, big.NewInt(1))
		}
	}
	eff := new(big.Int).Set(price)
	if ty == "dyn" {
		eff = new(big.Int).Add(tip, bf)
		if eff.Cmp(price) > 0 {
			eff = new(big.Int).Set(price)
		}
	}
	fee := new(big.Int).Mul(eff, new(big.Int).SetUint64(gas))
	// value
	value := big.NewInt(0)
	switch vc {
	case "one":
		value = big.NewInt(int64(1 + d.rng.Intn(1000000)))
	case "over":
		value = new(big.Int).Add(balS, big.NewInt(1))
	case "split":
		if balS.Cmp(fee) >= 0 {
			value = new(big.Int).Sub(balS, fee)
			value.Add(value, big.NewInt(1))
		} else {
			value = new(big.Int).Set(balS)
		}
	}
	args := &evmtypes.EvmTxArgs{ChainID: d.chainID, Nonce: nonce, To: toAddr, Amount: value, GasLimit: gas, Input: data}
	switch ty {
	case "leg":
		args.GasPrice = price
	case "al":
		args.GasPrice = price
		args.Accesses = accesses
	case "dyn":
		args.GasFeeCap = price
		args.GasTipCap = tip
		args.Accesses = accesses
	}
	if to == "new" || to == "newp" {
		// a rejected attempt leaves the nonce unchanged, so the same address can come up again: count it once
		if na := crypto.CreateAddress(from, nonce); !d.tracked[hex.EncodeToString(na.Bytes())] {
			d.created = append(d.created, na)
			d.tracked[hex.EncodeToString(na.Bytes())] = true
		}
	}
	msg := evmtypes.NewTx(args)
	t := map[string]interface{}{"s": s, "to": to, "ty": ty, "gas": gas, "price": NB(price), "tip": NB(tip), "value": NB(value),
		"nonce": nonce, "intr": intr, "mode": mode, "word": NB(wordV), "op": op, "amt": NB(amt)}
	return builtTx{msg: msg, key: d.keys[s], t: t, to: to, k: e.A}
}

func abciCodeOf(res abci.ResponseDeliverTx, panicked string) int {
	code := int(res.Code)
	if res.Codespace != "" && res.Codespace != "sdk" && res.Codespace != "undefined" {
		code += 1000
	}
	if panicked != "" {
		code = -1
	}
	return code
}

func (d *evmDriver) deliverBytes(txBytes []byte) (res abci.ResponseDeliverTx, panicked string) {
	defer func() {
		if r := recover(); r != nil {
			panicked = fmt.Sprint(r)
		}
	}()
	res = d.w.App.BaseApp.DeliverTx(abci.RequestDeliverTx{Tx: txBytes})
	return
}

func clip(s string, n int) string {
	if len(s) > n {
		return s[:n]
	}
	return s
}

func (d *evmDriver) execTx(e BEvent, tw *TraceWriter) {
	d.deliverBuilt(d.buildTx(e, nil), e.A, tw)
}

func (d *evmDriver) deliverBuilt(b builtTx, classes map[string]json.RawMessage, tw *TraceWriter) {
	e := BEvent{Ev: "Tx", A: classes}
	if b.k != nil {
		e.A = b.k
	}
	txBytes := d.encode(b.msg, b.key)
	chk, chkLog := d.checkAdmission(txBytes)
	res, panicked := d.deliverBytes(txBytes)
	code := abciCodeOf(res, panicked)
	vmerr, retok := "", "na"
	nlogs := 0
	if res.Code == 0 && panicked == "" {
		r, err := evmtypes.DecodeTxResponse(res.Data)
		must(err)
		vmerr = r.VmError
		nlogs = len(r.Logs)
		if (b.to == "pre") && len(r.Ret) >= 32 {
			retok = fmt.Sprint(r.Ret[31] == 1)
		}
	}
	gu := res.GasUsed
	post := d.project()
	tw.Emit(map[string]interface{}{"ev": "Tx",
		"a": map[string]interface{}{"t": b.t, "x": map[string]interface{}{"gasEvm": gu, "vmfail": vmerr != "", "gasRej": gu, "wflag": post["stor"].(map[string]Num)["w"], "inner": post["stor"].(map[string]Num)["w1"].String() == "2"}, "k": e.A},
		"o": map[string]interface{}{"code": code, "gu": gu, "vmfail": vmerr != "", "chk": chk},
		"r": map[string]interface{}{"abci": res.Code, "codespace": res.Codespace, "log": clip(res.Log, 300), "gw": res.GasWanted, "vmerr": vmerr, "retok": retok, "nlogs": nlogs, "panic": panicked,
			"hash": b.msg.Hash, "chklog": clip(chkLog, 160)},
		"st": post, "dg": d.digests()})
}

// execBatch: ONE Cosmos tx carrying several MsgEthereumTx (each signed by its own sender)
func (d *evmDriver) execBatch(e BEvent, tw *TraceWriter) {
	var ks []BEvent
	{
		var raw []map[string]json.RawMessage
		must(json.Unmarshal(e.A["ks"], &raw))
		for _, r := range raw {
			ks = append(ks, BEvent{Ev: "Tx", A: r})
		}
	}
	ahead := map[string]uint64{}
	var bs []builtTx
	for _, k := range ks {
		b := d.buildTx(k, ahead)
		ahead[k.str("s")]++
		bs = append(bs, b)
	}
	d.lastBatch = bs
	signer := ethtypes.LatestSignerForChainID(d.chainID)
	var msgs []sdk.Msg
	gasSum := uint64(0)
	fee := sdk.Coins{}
	for _, b := range bs {
		b.msg.From = AddrOf(b.key).Hex()
		must(b.msg.Sign(signer, testtx.NewSigner(b.key)))
		b.msg.From = ""
		msgs = append(msgs, b.msg)
		gasSum += b.msg.GetGas()
		fee = fee.Add(sdk.Coin{Denom: utils.BaseDenom, Amount: sdkmath.NewIntFromBigInt(b.msg.GetFee())})
	}
	txb := d.txCfg.NewTxBuilder()
	must(txb.SetMsgs(msgs...))
	opt, err := codectypes.NewAnyWithValue(&evmtypes.ExtensionOptionsEthereumTx{})
	must(err)
	txb.(authtx.ExtensionOptionsTxBuilder).SetExtensionOptions(opt)
	txb.SetGasLimit(gasSum)
	txb.SetFeeAmount(fee)
	txBytes, err := d.txCfg.TxEncoder()(txb.GetTx())
	must(err)
	chk, chkLog := d.checkAdmission(txBytes)
	res, panicked := d.deliverBytes(txBytes)
	code := abciCodeOf(res, panicked)
	gus, vmfails, vmerrs := []uint64{}, []bool{}, []string{}
	if res.Code == 0 && panicked == "" {
		var txData sdk.TxMsgData
		must(proto.Unmarshal(res.Data, &txData))
		for _, mr := range txData.MsgResponses {
			var r evmtypes.MsgEthereumTxResponse
			must(proto.Unmarshal(mr.Value, &r))
			gus = append(gus, r.GasUsed)
			vmfails = append(vmfails, r.VmError != "")
			vmerrs = append(vmerrs, r.VmError)
		}
	}
	post := d.project()
	var ts, xs, kk []interface{}
	for i, b := range bs {
		ts = append(ts, b.t)
		x := map[string]interface{}{"gasEvm": uint64(0), "vmfail": false, "gasRej": res.GasUsed, "wflag": post["stor"].(map[string]Num)["w"], "inner": false}
		if i < len(gus) {
			x["gasEvm"], x["vmfail"] = gus[i], vmfails[i]
		}
		xs = append(xs, x)
		kk = append(kk, b.k)
	}
	tw.Emit(map[string]interface{}{"ev": "Batch",
		"a": map[string]interface{}{"ts": ts, "xs": xs, "ks": kk},
		"o": map[string]interface{}{"code": code, "gu": res.GasUsed, "gus": gus, "vmfails": vmfails, "chk": chk},
		"r": map[string]interface{}{"abci": res.Code, "codespace": res.Codespace, "log": clip(res.Log, 300), "gw": res.GasWanted, "vmerrs": vmerrs, "panic": panicked, "chklog": clip(chkLog, 160)},
		"st": post, "dg": d.digests()})
}
