// Oracle family driver (abci-mode): executes TLC-generated behaviours of MC_Oracle on the REAL
// application (BeginBlock / DeliverTx of signed MsgCreatePrice / EndBlock / Commit) and records,
// after every event, the full projection of the oracle's persisted state (prices, nonces, replay
// log) and of its process-local state (hook H1 dump of agc / cs / updatedFeederIDs).
//
//	harness oracle      -in beh.ndjson -out trace.ndjson -cfgs cfgs.json
//	    in-process: every behaviour is executed twice - once with its Restart flags ignored
//	    (the continuous twin) and once with them honoured through the exported Reset* functions;
//	    each line of the second run carries the twin's projection as "cst".
//	harness oracle-node -db DIR -script beh.json -from k0 -to k1 -out lines.ndjson
//	    one node LIFE as an OS process on a goleveldb directory: executes blocks k0+1..k1 of one
//	    behaviour (InitChain only when k0 = 0) and exits after Commit(k1) (-to -1: run to the end).
//	    A restart is a new process on the same directory: fresh package-level oracle state.
package main

import (
	"encoding/json"
	"flag"
	"fmt"
	"os"
	"sort"
	"strconv"
	"time"

	dbm "github.com/cometbft/cometbft-db"
	abci "github.com/cometbft/cometbft/abci/types"
	"github.com/cometbft/cometbft/crypto/tmhash"
	tmproto "github.com/cometbft/cometbft/proto/tendermint/types"
	"github.com/cosmos/cosmos-sdk/client"
	cryptocodec "github.com/cosmos/cosmos-sdk/crypto/codec"
	"github.com/cosmos/cosmos-sdk/crypto/keys/ed25519"
	sdk "github.com/cosmos/cosmos-sdk/types"
	"github.com/cosmos/cosmos-sdk/types/tx/signing"
	authsigning "github.com/cosmos/cosmos-sdk/x/auth/signing"
	authtypes "github.com/cosmos/cosmos-sdk/x/auth/types"
	govtypes "github.com/cosmos/cosmos-sdk/x/gov/types"
	"github.com/evmos/evmos/v16/encoding"

	sdkmath "cosmossdk.io/math"
	ethcommon "github.com/ethereum/go-ethereum/common"

	exocoreapp "github.com/ExocoreNetwork/exocore/app"
	"github.com/ExocoreNetwork/exocore/utils"
	assetskeeper "github.com/ExocoreNetwork/exocore/x/assets/keeper"
	assetstypes "github.com/ExocoreNetwork/exocore/x/assets/types"
	delegationtypes "github.com/ExocoreNetwork/exocore/x/delegation/types"
	oraclekeeper "github.com/ExocoreNetwork/exocore/x/oracle/keeper"
	oraclecommon "github.com/ExocoreNetwork/exocore/x/oracle/keeper/common"
	oracletypes "github.com/ExocoreNetwork/exocore/x/oracle/types"
)

// ---------------------------------------------------------------------------------------------
// configuration (= the "Init" event of a behaviour; mirrors the cfg record of spec/Oracle.tla)

type OFeeder struct {
	Tok   string `json:"tok"`
	Start uint64 `json:"start"`
	Iv    uint64 `json:"iv"`
	Sr    uint64 `json:"sr"`
	End   uint64 `json:"end"`
}

type OCfg struct {
	Pw  map[string]int64   `json:"pw"`  // validator -> power
	Mn  int32              `json:"mn"`  // MaxNonce
	Md  int32              `json:"md"`  // MaxDetId
	Ms  int32              `json:"ms"`  // MaxSizePrices
	Fd  map[string]OFeeder `json:"fd"`  // feeder -> definition ("f1","f2")
	Gen map[string]int64   `json:"gen"` // token -> genesis price of round 1 (0 = no genesis round)
	Ep  int64              `json:"ep"`  // dogfood epoch length in seconds = blocks (0: the default "day" epoch, never ends here)
}

type OPrice struct {
	D string          `json:"d"`
	P json.RawMessage `json:"p"`
}

type OMsg struct {
	V     string   `json:"v"`
	F     string   `json:"f"`
	Base  uint64   `json:"base"`
	Nonce int32    `json:"nonce"`
	Ps    []OPrice `json:"ps"`
}

type OEvent struct {
	Ev string `json:"ev"`
	A  struct {
		Cfg     *OCfg  `json:"cfg"`
		Msgs    []OMsg `json:"msgs"`
		Restart bool   `json:"restart"`
		F       string `json:"f"`     // Upd: feeder whose EndBlock is set
		End     uint64 `json:"end"`   // Upd: new EndBlock
		V       string `json:"v"`     // Stake: validator whose operator receives a delegation
		X       int64  `json:"x"`     // Stake: whole units of the staking asset
		Tok     string `json:"tok"`   // Add: token
		Start   uint64 `json:"start"` // Add: StartBaseBlock
		Iv      uint64 `json:"iv"`    // Add: Interval
		Sr      uint64 `json:"sr"`    // Add: StartRoundID
	} `json:"a"`
}

func idNum(s string) uint64 {
	n, err := strconv.ParseUint(s[1:], 10, 64)
	must(err)
	return n
}

var oracleGenesisTime = time.Date(2024, 1, 1, 0, 0, 0, 0, time.UTC)

const oracleTimestamp = "2024-01-01 00:00:00"

func sortedKeys[T any](m map[string]T) []string {
	var ks []string
	for k := range m {
		ks = append(ks, k)
	}
	sort.Slice(ks, func(i, j int) bool { return idNum(ks[i]) < idNum(ks[j]) })
	return ks
}

// ---------------------------------------------------------------------------------------------
// one node life

type oracleNode struct {
	cfg      OCfg
	app      *exocoreapp.ExocoreApp
	chainID  string
	header   tmproto.Header
	txCfg    client.TxConfig
	keys     map[string]*ed25519.PrivKey // "v1" -> consensus key
	ids      map[string]string           // every string form of a validator -> "v1"
	nTokens  int
	lastVU   []jm
	dbdir    string
	openHalt string // panic of the first BeginBlock of a restarted life
}

func oracleGenCfg(c OCfg, dbdir string) GenCfg {
	gc := DefaultGenCfg()
	gc.NStakers = 1
	gc.NOperators = len(c.Pw)
	gc.Validators = nil
	for _, v := range sortedKeys(c.Pw) {
		gc.Validators = append(gc.Validators, ValCfg{Op: int(idNum(v)) - 1, Power: c.Pw[v]})
	}
	gc.DBDir = dbdir
	if c.Ep > 0 {
		// a short epoch makes x/operator recompute the voting powers from the oracle price of the staking asset
		// (token t1) and x/dogfood emit validator updates: the oracle then force-seals every open round
		gc.Epochs = []EpochCfg{{ID: "verif", Duration: time.Duration(c.Ep) * time.Second}}
		gc.DogfoodEpoch = "verif"
	}
	gc.GenesisTime = oracleGenesisTime
	gc.OracleMut = func(p *oracletypes.Params, g *oracletypes.GenesisState) {
		// token 1 = the staking asset's token created by NewWorld; further tokens are plain
		nTok := 2
		for _, f := range c.Fd {
			if f.Tok != "" && int(idNum(f.Tok)) > nTok {
				nTok = int(idNum(f.Tok))
			}
		}
		p.Tokens = p.Tokens[:2]
		p.Tokens[1].Decimal = 0
		for t := 2; t <= nTok; t++ {
			p.Tokens = append(p.Tokens, &oracletypes.Token{Name: fmt.Sprintf("T%d", t), ChainID: 1, ContractAddress: "0x", Decimal: 0, Active: true, AssetID: ""})
		}
		p.TokenFeeders = p.TokenFeeders[:1]
		for _, fk := range sortedKeys(c.Fd) {
			f := c.Fd[fk]
			if f.Tok == "" {
				continue
			}
			p.TokenFeeders = append(p.TokenFeeders, &oracletypes.TokenFeeder{TokenID: idNum(f.Tok), RuleID: 1, StartRoundID: f.Sr, StartBaseBlock: f.Start, Interval: f.Iv, EndBlock: f.End})
		}
		p.MaxNonce = c.Mn
		p.MaxDetId = c.Md
		p.MaxSizePrices = c.Ms
		g.PricesList = nil
		for _, tk := range sortedKeys(c.Gen) {
			if c.Gen[tk] > 0 {
				g.PricesList = append(g.PricesList, oracletypes.Prices{TokenID: idNum(tk), NextRoundID: 2,
					PriceList: []*oracletypes.PriceTimeRound{{Price: strconv.FormatInt(c.Gen[tk], 10), Decimal: 0, RoundID: 1, Timestamp: oracleTimestamp}}})
			}
		}
		must(p.Validate())
	}
	return gc
}

// the model names every feeder id (spec/Oracle.tla: FORD = f1..f3); an id that is not a feeder is the ABSENT record
const oracleFeederIDs = 3

var absentFeeder = jm{"tok": "", "start": 0, "iv": 1, "sr": 0, "end": 0}

func normOracleCfg(c OCfg) OCfg {
	fd := map[string]OFeeder{}
	for k, v := range c.Fd {
		fd[k] = v
	}
	for i := 1; i <= oracleFeederIDs; i++ {
		if _, ok := fd[fid(uint64(i))]; !ok {
			fd[fid(uint64(i))] = OFeeder{Tok: "", Iv: 1}
		}
	}
	c.Fd = fd
	return c
}

func newOracleNode(c OCfg) *oracleNode {
	c = normOracleCfg(c)
	n := &oracleNode{cfg: c, chainID: utils.DefaultChainID, keys: map[string]*ed25519.PrivKey{}, ids: map[string]string{}}
	n.txCfg = encoding.MakeConfig(exocoreapp.ModuleBasics).TxConfig
	for v := range c.Pw {
		k := ConsKey(fmt.Sprintf("k%d", idNum(v)))
		n.keys[v] = k
		addr := k.PubKey().Address()
		n.ids[sdk.ConsAddress(addr).String()] = v
		n.ids[sdk.AccAddress(addr).String()] = v
		n.ids[sdk.AccAddress(addr).String()+"1"] = v // filter key: creator + sourceID
	}
	n.nTokens = 2
	for _, f := range c.Fd {
		if f.Tok != "" && int(idNum(f.Tok)) > n.nTokens {
			n.nTokens = int(idNum(f.Tok))
		}
	}
	return n
}

// fresh chain: InitChain + BeginBlock(1)
func (n *oracleNode) initChain(dbdir string) {
	n.dbdir = dbdir
	w := NewWorld(oracleGenCfg(n.cfg, dbdir))
	n.app = w.App
	n.header = w.Header
	n.touch()
}

// existing chain: open the DB, BeginBlock(last+1)
func (n *oracleNode) open(dbdir string) {
	n.dbdir = dbdir
	n.lastVU = []jm{}
	if bz, err := os.ReadFile(dbdir + "/lastvu.json"); err == nil {
		must(json.Unmarshal(bz, &n.lastVU))
	}
	db, err := dbm.NewGoLevelDB("application", dbdir)
	must(err)
	n.app = NewApp(db, n.chainID)
	h := n.app.LastBlockHeight()
	if h == 0 {
		panic("oracle-node: empty DB but -from > 0")
	}
	n.header = n.mkHeader(h + 1)
	func() {
		defer func() {
			if r := recover(); r != nil {
				n.openHalt = fmt.Sprint(r)
			}
		}()
		n.app.BeginBlock(abci.RequestBeginBlock{Header: n.header})
		n.touch()
	}()
}

func (n *oracleNode) mkHeader(h int64) tmproto.Header {
	proposer := sdk.ConsAddress(n.keys["v1"].PubKey().Address())
	return tmproto.Header{Height: h, Time: oracleGenesisTime.Add(time.Duration(h) * time.Second), ChainID: n.chainID, ProposerAddress: proposer,
		AppHash: tmhash.Sum([]byte("App")), ValidatorsHash: tmhash.Sum([]byte("Validators")), NextValidatorsHash: tmhash.Sum([]byte("Validators"))}
}

func (n *oracleNode) ctx() sdk.Context { return n.app.BaseApp.NewContext(false, n.header) }

// what the module's BeginBlock does once per process (sync.Once): make sure the aggregator
// context exists (rebuilt from the store after a restart). Idempotent.
func (n *oracleNode) touch() {
	_ = oraclekeeper.GetCaches()
	_ = oraclekeeper.GetAggregatorContext(n.ctx(), n.app.OracleKeeper)
}

func (n *oracleNode) creator(v string) string {
	return sdk.AccAddress(n.keys[v].PubKey().Address()).String()
}

func priceStr(raw json.RawMessage) string {
	b, err := ParseNum(raw)
	must(err)
	return b.String()
}

func (n *oracleNode) buildTx(msgs []OMsg) []byte {
	b := n.txCfg.NewTxBuilder()
	var sdkMsgs []sdk.Msg
	var signers []string
	seen := map[string]bool{}
	for _, m := range msgs {
		ps := &oracletypes.PriceSource{SourceID: 1}
		for _, p := range m.Ps {
			ps.Prices = append(ps.Prices, &oracletypes.PriceTimeDetID{Price: priceStr(p.P), Decimal: 0, Timestamp: oracleTimestamp, DetID: p.D})
		}
		sdkMsgs = append(sdkMsgs, &oracletypes.MsgCreatePrice{Creator: n.creator(m.V), FeederID: idNum(m.F), Prices: []*oracletypes.PriceSource{ps}, BasedBlock: m.Base, Nonce: m.Nonce})
		if !seen[m.V] {
			seen[m.V] = true
			signers = append(signers, m.V)
		}
	}
	must(b.SetMsgs(sdkMsgs...))
	b.SetGasLimit(0)
	mode := signing.SignMode_SIGN_MODE_DIRECT
	var sigs []signing.SignatureV2
	for _, v := range signers {
		sigs = append(sigs, signing.SignatureV2{PubKey: n.keys[v].PubKey(), Data: &signing.SingleSignatureData{SignMode: mode}, Sequence: 0})
	}
	must(b.SetSignatures(sigs...))
	for i, v := range signers {
		bz, err := n.txCfg.SignModeHandler().GetSignBytes(mode, authsigning.SignerData{ChainID: n.chainID}, b.GetTx())
		must(err)
		sig, err := n.keys[v].Sign(bz)
		must(err)
		sigs[i].Data = &signing.SingleSignatureData{SignMode: mode, Signature: sig}
	}
	must(b.SetSignatures(sigs...))
	bz, err := n.txCfg.TxEncoder()(b.GetTx())
	must(err)
	return bz
}

func (n *oracleNode) deliver(msgs []OMsg) (ok bool, code uint32, log string, panicked bool) {
	defer func() {
		if r := recover(); r != nil {
			ok, panicked, log = false, true, fmt.Sprint(r)
		}
	}()
	res := n.app.DeliverTx(abci.RequestDeliverTx{Tx: n.buildTx(msgs)})
	lg := res.Log
	if len(lg) > 160 {
		lg = lg[:160]
	}
	return res.Code == 0, res.Code, lg, false
}

// the arguments as logged: prices as canonical decimal strings (spec/Num.tla)
func echoMsgs(msgs []OMsg) []jm {
	out := []jm{}
	for _, m := range msgs {
		ps := []jm{}
		for _, p := range m.Ps {
			ps = append(ps, jm{"d": p.D, "p": priceStr(p.P)})
		}
		out = append(out, jm{"v": m.V, "f": m.F, "base": m.Base, "nonce": m.Nonce, "ps": ps})
	}
	return out
}

// MsgUpdateParams that sets the EndBlock of a token's latest feeder.  On this chain id the authority must be the
// gov module account, i.e. the message can only come from a passed governance proposal, which x/gov executes by
// calling the message server in its EndBlocker (before the oracle's).  The driver calls the message server with the
// gov authority on the deliver-state context at that point of the block (no transaction path, DESIGN 4.2).
func (n *oracleNode) deliverUpd(f string, end uint64) (ok bool, code uint32, log string, panicked bool) {
	// the message names a TOKEN (UpdateTokenFeeder then works on that token's latest feeder): the token of feeder f
	// according to the stored params
	tok := uint64(0)
	kp := n.app.OracleKeeper.GetParams(n.ctx())
	if i := int(idNum(f)); i < len(kp.TokenFeeders) {
		tok = kp.TokenFeeders[i].TokenID
	}
	if tok == 0 {
		return false, 1, "feeder absent", false
	}
	return n.deliverParams(&oracletypes.TokenFeeder{TokenID: tok, EndBlock: end})
}

func (n *oracleNode) deliverParams(tf *oracletypes.TokenFeeder) (ok bool, code uint32, log string, panicked bool) {
	defer func() {
		if r := recover(); r != nil {
			ok, panicked, log = false, true, fmt.Sprint(r)
		}
	}()
	auth := authtypes.NewModuleAddress(govtypes.ModuleName).String()
	msg := &oracletypes.MsgUpdateParams{Authority: auth, Params: oracletypes.Params{TokenFeeders: []*oracletypes.TokenFeeder{tf}}}
	_, err := oraclekeeper.NewMsgServerImpl(n.app.OracleKeeper).UpdateParams(n.ctx(), msg)
	if err != nil {
		lg := err.Error()
		if len(lg) > 160 {
			lg = lg[:160]
		}
		return false, 1, lg, false
	}
	return true, 0, "", false
}

// operator address of validator v ("v1" = operator o1 of NewWorld: operators sorted by bech32 address)
func oracleOpAddr(nOps int, v string) sdk.AccAddress {
	var addrs []sdk.AccAddress
	for i := 1; i <= nOps; i++ {
		addrs = append(addrs, sdk.AccAddress(EthKey(fmt.Sprintf("operator%d", i)).PubKey().Address().Bytes()))
	}
	sort.Slice(addrs, func(i, j int) bool { return addrs[i].String() < addrs[j].String() })
	return addrs[idNum(v)-1]
}

// Stake: staker s1 deposits x whole units of the staking asset (6 decimals) and delegates them to the operator of
// validator v (keeper level, on the deliver-state context): at the next dogfood epoch end x/operator recomputes
// that operator's voting power and x/dogfood emits a validator update for THIS validator only.
func (n *oracleNode) stake(v string, x int64) (ok bool, log string, panicked bool) {
	defer func() {
		if r := recover(); r != nil {
			ok, panicked, log = false, true, fmt.Sprint(r)
		}
	}()
	ctx := n.ctx()
	st := AddrOf(EthKey("staker1")).Bytes()
	aaddr := ethcommon.BytesToAddress(h256("asset:lst")[:20]).Bytes()
	amt := sdkmath.NewIntWithDecimal(x, 6)
	if err := n.app.AssetsKeeper.PerformDepositOrWithdraw(ctx, &assetskeeper.DepositWithdrawParams{ClientChainLzID: LzID, Action: assetstypes.DepositLST, AssetsAddress: aaddr, StakerAddress: st, OpAmount: amt}); err != nil {
		return false, err.Error(), false
	}
	if err := n.app.DelegationKeeper.DelegateTo(ctx, &delegationtypes.DelegationOrUndelegationParams{ClientChainID: LzID, Action: assetstypes.DelegateTo, AssetsAddress: aaddr, OperatorAddress: oracleOpAddr(len(n.cfg.Pw), v), StakerAddress: st, OpAmount: amt}); err != nil {
		return false, err.Error(), false
	}
	return true, "", false
}

// EndBlock(h) + Commit
func (n *oracleNode) endAndCommit() (halt string) {
	defer func() {
		if r := recover(); r != nil {
			halt = fmt.Sprint(r)
		}
	}()
	n.app.EndBlock(abci.RequestEndBlock{Height: n.header.Height})
	// the validator updates x/dogfood produced in this block (what the oracle's EndBlock read)
	n.lastVU = []jm{}
	for _, vu := range n.app.StakingKeeper.GetValidatorUpdates(n.ctx()) {
		pk, err := cryptocodec.FromTmProtoPublicKey(vu.PubKey)
		must(err)
		n.lastVU = append(n.lastVU, jm{"v": n.vid(sdk.ConsAddress(pk.Address()).String()), "w": vu.Power})
	}
	sort.Slice(n.lastVU, func(i, j int) bool { return n.lastVU[i]["v"].(string) < n.lastVU[j]["v"].(string) })
	n.app.Commit()
	return ""
}

// BeginBlock(h+1)
func (n *oracleNode) beginNext() (halt string) {
	defer func() {
		if r := recover(); r != nil {
			halt = fmt.Sprint(r)
		}
	}()
	n.header = n.mkHeader(n.header.Height + 1)
	n.app.BeginBlock(abci.RequestBeginBlock{Header: n.header})
	n.touch()
	return ""
}

// in-process approximation of a restart: drop every package-level variable of the oracle
func oracleResetGlobals() {
	oraclekeeper.ResetAggregatorContext()
	oraclekeeper.ResetCache()
	oraclekeeper.ResetAggregatorContextCheckTx()
	oraclekeeper.ResetUpdatedFeederIDs()
	// a fresh process starts with the compiled-in defaults of x/oracle/keeper/common (types.go);
	// recacheAggregatorContext reads common.MaxNonce before it loads the stored params
	oraclecommon.MaxNonce = 3
	oraclecommon.ThresholdA = 2
	oraclecommon.ThresholdB = 3
	oraclecommon.MaxDetID = 5
	oraclecommon.Mode = oracletypes.ConsensusModeASAP
}

// ---------------------------------------------------------------------------------------------
// projection

type jm = map[string]interface{}

func opt(has bool, s string) jm {
	if !has || s == "" {
		return jm{"some": false, "v": "0"}
	}
	return jm{"some": true, "v": s}
}

func atoi(s string) int64 {
	if s == "" {
		return 0
	}
	i, err := strconv.ParseInt(s, 10, 64)
	must(err)
	return i
}

func (n *oracleNode) vid(s string) string {
	if v, ok := n.ids[s]; ok {
		return v
	}
	return "?" + s
}

func fid(i uint64) string { return fmt.Sprintf("f%d", i) }

func (n *oracleNode) msgItems(items []*oracletypes.MsgItem) []jm {
	out := []jm{}
	for _, m := range items {
		ps := []jm{}
		for _, s := range m.PSources {
			for _, p := range s.Prices {
				ps = append(ps, jm{"d": p.DetID, "p": p.Price})
			}
		}
		out = append(out, jm{"f": fid(m.FeederID), "v": n.vid(m.Validator), "ps": ps, "ns": len(m.PSources)})
	}
	return out
}

// validator id of a filter / report key.  Keys are strings today (consensus or account bech32, for the det-id sets
// the account address followed by the source id); a struct key is accepted too: the fields are looked up by name
// (a field holding a known validator string, a numeric field as the source id).
func (n *oracleNode) keyVal(k interface{}) (v string, src int64) {
	switch t := k.(type) {
	case string:
		return n.vid(t), 1
	case rnode:
		v, src = "?", 1
		for _, x := range t {
			if sv, ok := x.(string); ok {
				if id, known := n.ids[sv]; known {
					v = id
				}
			} else {
				src = rint(x)
			}
		}
		return v, src
	}
	return "?" + renderKey(k), 1
}

func feedersOfTree(p interface{}) jm {
	out := jm{}
	defer fillAbsent(out)
	for i, f := range rlist(rget(p, "TokenFeeders")) {
		if i == 0 || f == nil {
			continue
		}
		out[fid(uint64(i))] = jm{"tok": fmt.Sprintf("t%d", rint(rget(f, "TokenID"))), "start": rint(rget(f, "StartBaseBlock")),
			"iv": rint(rget(f, "Interval")), "sr": rint(rget(f, "StartRoundID")), "end": rint(rget(f, "EndBlock"))}
	}
	return out
}

// projection of the aggregator context from the reflected tree (every piece looked up by name; an absent piece
// yields the empty value, which the strict lane then reports as drift)
func (n *oracleNode) dumpAgc(d interface{}) (rounds, aggs []jm, powers jm, total int64, isNil bool) {
	rounds, aggs, powers = []jm{}, []jm{}, jm{}
	if d == nil {
		return rounds, aggs, powers, 0, true
	}
	for _, kv := range rmap(rget(d, "validatorsPower")) {
		powers[n.vid(rstr(kv.K))] = rint(kv.V)
	}
	total = rint(rget(d, "totalPower"))
	for _, kv := range rmap(rget(d, "rounds")) {
		rounds = append(rounds, jm{"f": fid(uint64(rint(kv.K))), "base": rint(rget(kv.V, "basedBlock")), "next": rint(rget(kv.V, "nextRoundID")), "status": rint(rget(kv.V, "status"))})
	}
	for _, kv := range rmap(rget(d, "aggregators")) {
		w := kv.V
		if w == nil {
			continue
		}
		sealed := rbool(rget(w, "sealed"))
		f, c, ag := rget(w, "f"), rget(w, "c"), rget(w, "a")
		live := f != nil && c != nil && ag != nil
		a := jm{"f": fid(uint64(rint(kv.K))), "sealed": sealed, "price": opt(sealed, rstr(rget(w, "price"))), "live": live}
		fN, fS, calc, reports := []jm{}, []jm{}, []jm{}, []jm{}
		ds := ""
		nsrc := 0
		if live {
			for _, e := range rmap(rget(f, "validatorNonce")) {
				v, _ := n.keyVal(e.K)
				set := []int64{}
				for _, x := range rlist(rget(e.V, "slice")) {
					set = append(set, rint(x))
				}
				fN = append(fN, jm{"v": v, "s": set, "size": rint(rget(e.V, "size"))})
			}
			for _, e := range rmap(rget(f, "validatorSource")) {
				v, src := n.keyVal(e.K)
				if src != 1 {
					v = fmt.Sprintf("%s#%d", v, src)
				}
				set := []string{}
				for _, x := range rlist(rget(e.V, "slice")) {
					set = append(set, rstr(x))
				}
				fS = append(fS, jm{"v": v, "s": set, "size": rint(rget(e.V, "size"))})
			}
			srcs := rmap(rget(c, "deterministicSource"))
			nsrc = len(srcs)
			for _, cs := range srcs {
				for _, r := range rlist(rget(cs.V, "roundPricesList")) {
					pp := []jm{}
					for _, x := range rlist(rget(r, "prices")) {
						pp = append(pp, jm{"p": rstr(rget(x, "price")), "w": rint(rget(x, "power"))})
					}
					cp := rget(r, "price")
					calc = append(calc, jm{"d": rstr(rget(r, "detID")), "pp": pp, "conf": opt(cp != nil, rstr(cp)), "src": rint(cs.K)})
				}
			}
			for _, r := range rlist(rget(ag, "reports")) {
				rpv := rget(r, "price")
				prices := rmap(rget(r, "prices"))
				rp := jm{"v": n.vid(rstr(rget(r, "validator"))), "price": opt(rpv != nil, rstr(rpv)), "w": rint(rget(r, "power")), "has": false, "sp": opt(false, ""), "sd": "", "nsrc": len(prices)}
				for _, sp := range prices {
					if rint(sp.K) == 1 && sp.V != nil {
						spv := rget(sp.V, "price")
						rp["has"] = true
						rp["sp"] = opt(spv != nil, rstr(spv))
						rp["sd"] = rstr(rget(sp.V, "detRoundID"))
					}
				}
				reports = append(reports, rp)
			}
			for _, x := range rmap(rget(ag, "dsPrices")) {
				if rint(x.K) == 1 {
					ds = rstr(x.V)
				}
			}
		}
		a["fN"], a["fS"], a["calc"], a["reports"], a["ds"] = fN, fS, calc, reports, ds
		fin := rget(ag, "finalPrice")
		a["rpower"] = rint(rget(ag, "reportPower"))
		a["final"] = opt(live && fin != nil, rstr(fin))
		a["nsrc"] = nsrc
		a["nvals"] = rint(rget(c, "validatorLength"))
		a["total"] = rint(rget(c, "totalPower"))
		aggs = append(aggs, a)
	}
	return rounds, aggs, powers, total, false
}

// cached messages (cache.msg: *[]*ItemM) from the reflected tree
func (n *oracleNode) cacheMsgItems(l interface{}) []jm {
	out := []jm{}
	for _, m := range rlist(l) {
		if m == nil {
			continue
		}
		ps := []jm{}
		srcs := rlist(rget(m, "PSources"))
		for _, s := range srcs {
			for _, p := range rlist(rget(s, "Prices")) {
				ps = append(ps, jm{"d": rstr(rget(p, "DetID")), "p": rstr(rget(p, "Price"))})
			}
		}
		out = append(out, jm{"f": fid(uint64(rint(rget(m, "FeederID")))), "v": n.vid(rstr(rget(m, "Validator"))), "ps": ps, "ns": len(srcs)})
	}
	return out
}

// feeders of a params value as the model's fd function: {"f1": {tok, start, iv, sr, end}, ...}
func fillAbsent(out jm) jm {
	for i := 1; i <= oracleFeederIDs; i++ {
		if _, ok := out[fid(uint64(i))]; !ok {
			out[fid(uint64(i))] = absentFeeder
		}
	}
	return out
}

func fdOf(fs []*oracletypes.TokenFeeder) jm {
	out := jm{}
	defer fillAbsent(out)
	for i, f := range fs {
		if i == 0 || f == nil {
			continue
		}
		out[fid(uint64(i))] = jm{"tok": fmt.Sprintf("t%d", f.TokenID), "start": f.StartBaseBlock, "iv": f.Interval, "sr": f.StartRoundID, "end": f.EndBlock}
	}
	return out
}

func (n *oracleNode) project() jm {
	ctx := n.ctx()
	k := n.app.OracleKeeper
	st := jm{"h": n.header.Height}
	// persisted
	prices := []jm{}
	byTok := map[uint64]oracletypes.Prices{}
	for _, p := range k.GetAllPrices(ctx) {
		byTok[p.TokenID] = p
	}
	for t := 1; t <= n.nTokens; t++ {
		p, ok := byTok[uint64(t)]
		list := []jm{}
		next := k.GetNextRoundID(ctx, uint64(t))
		if ok {
			for _, e := range p.PriceList {
				list = append(list, jm{"r": e.RoundID, "p": opt(true, e.Price)})
			}
		}
		prices = append(prices, jm{"t": fmt.Sprintf("t%d", t), "next": next, "list": list})
	}
	st["prices"] = prices
	nonce := []jm{}
	for _, v := range sortedKeys(n.cfg.Pw) {
		vn, found := k.GetNonce(ctx, sdk.ConsAddress(n.keys[v].PubKey().Address()).String())
		if !found {
			continue
		}
		for _, e := range vn.NonceList {
			nonce = append(nonce, jm{"v": v, "f": fid(e.FeederID), "n": e.Value})
		}
	}
	st["nonce"] = nonce
	rmsgs := []jm{}
	for _, rm := range k.GetAllRecentMsg(ctx) {
		rmsgs = append(rmsgs, jm{"b": rm.Block, "msgs": n.msgItems(rm.Msgs)})
	}
	st["rmsgs"] = rmsgs
	idx, _ := k.GetIndexRecentMsg(ctx)
	st["rmIdx"] = append([]uint64{}, idx.Index...)
	pidx, _ := k.GetIndexRecentParams(ctx)
	st["rpIdx"] = append([]uint64{}, pidx.Index...)
	rp := []jm{}
	for _, x := range k.GetAllRecentParams(ctx) {
		rp = append(rp, jm{"b": x.Block, "fd": fdOf(x.Params.TokenFeeders)})
	}
	st["rparams"] = rp
	kp := k.GetParams(ctx)
	st["kfd"] = fdOf(kp.TokenFeeders)
	vub, found := k.GetValidatorUpdateBlock(ctx)
	if found {
		st["vub"] = vub.Block
	} else {
		st["vub"] = 0
	}
	// process-local (hook H1)
	roots := oraclekeeper.VerifRoots()
	agcT, csT := rwalk(roots["agc"]), rwalk(roots["cs"])
	rounds, aggs, powers, total, isNil := n.dumpAgc(agcT)
	st["rounds"], st["aggs"], st["powers"], st["total"], st["agcNil"] = rounds, aggs, powers, total, isNil
	st["afd"] = feedersOfTree(rget(agcT, "params"))
	st["cfd"] = feedersOfTree(rget(csT, "params", "params"))
	st["cvu"], st["cpu"] = rbool(rget(csT, "validators", "update")), rbool(rget(csT, "params", "update"))
	// the cache's own validator map (cs.validators.validators) - distinct from the aggregator context's
	cv := jm{}
	for _, kv := range rmap(rget(csT, "validators", "validators")) {
		cv[n.vid(rstr(kv.K))] = rint(kv.V)
	}
	st["cv"] = cv
	// x/dogfood's stored validator set (what a restarted node reads)
	dv := jm{}
	for _, val := range n.app.StakingKeeper.GetAllExocoreValidators(ctx) {
		dv[n.vid(sdk.ConsAddress(val.Address).String())] = val.Power
	}
	st["dv"] = dv
	st["cmsgs"] = n.cacheMsgItems(rget(csT, "msg"))
	upd := []string{}
	for _, u := range rlist(rwalk(roots["updatedFeederIDs"])) {
		upd = append(upd, "f"+rstr(u))
	}
	st["upd"] = upd
	st["chk"] = rwalk(roots["agcCheckTx"]) == nil
	st["apphash"] = hexOf(n.app.LastCommitID().Hash)
	return st
}

// ---------------------------------------------------------------------------------------------
// running a behaviour

// runEvents executes events[from:] until `stopAfterBlocks` EndBlock events have been committed
// (-1: all). emit is called with (event index, line).
func (n *oracleNode) runEvents(events []OEvent, startIdx int, stopAfter int, honourRestart bool, emit func(i int, line jm)) {
	blocks := 0
	for i := startIdx; i < len(events); i++ {
		e := events[i]
		switch e.Ev {
		case "Tx":
			ok, code, lg, pan := n.deliver(e.A.Msgs)
			emit(i, jm{"ev": "Tx", "a": jm{"msgs": echoMsgs(e.A.Msgs)}, "ok": ok, "code": code, "err": lg, "panic": pan, "st": n.project()})
		case "Upd":
			ok, code, lg, pan := n.deliverUpd(e.A.F, e.A.End)
			emit(i, jm{"ev": "Upd", "a": jm{"f": e.A.F, "end": e.A.End}, "ok": ok, "code": code, "err": lg, "panic": pan, "st": n.project()})
		case "Stake":
			ok, lg, pan := n.stake(e.A.V, e.A.X)
			emit(i, jm{"ev": "Stake", "a": jm{"v": e.A.V, "x": e.A.X}, "ok": ok, "code": 0, "err": lg, "panic": pan, "st": n.project()})
		case "Add":
			ok, code, lg, pan := n.deliverParams(&oracletypes.TokenFeeder{TokenID: idNum(e.A.Tok), RuleID: 1, StartBaseBlock: e.A.Start, Interval: e.A.Iv, StartRoundID: e.A.Sr})
			emit(i, jm{"ev": "Add", "a": jm{"tok": e.A.Tok, "start": e.A.Start, "iv": e.A.Iv, "sr": e.A.Sr}, "ok": ok, "code": code, "err": lg, "panic": pan, "st": n.project()})
		case "EndBlock":
			halt := n.endAndCommit()
			blocks++
			if halt == "" && stopAfter >= 0 && blocks == stopAfter {
				// the next life emits this event's line; hand it the validator updates of this block
				if n.dbdir != "" {
					bz, _ := json.Marshal(n.lastVU)
					must(os.WriteFile(n.dbdir+"/lastvu.json", bz, 0o644))
				}
				return
			}
			if halt == "" && e.A.Restart && honourRestart {
				oracleResetGlobals()
			}
			if halt == "" {
				halt = n.beginNext()
			}
			if halt != "" {
				// a block phase panicked: no projection is possible any more (C11_Halt); the behaviour ends
				if len(halt) > 300 {
					halt = halt[:300]
				}
				emit(i, jm{"ev": "EndBlock", "a": jm{"restart": e.A.Restart, "vu": n.lastVU}, "ok": false, "code": 0, "err": halt, "panic": true, "st": jm{}})
				return
			}
			emit(i, jm{"ev": "EndBlock", "a": jm{"restart": e.A.Restart, "vu": n.lastVU}, "ok": true, "code": 0, "err": "", "panic": false, "st": n.project()})
		default:
			panic("oracle: unknown event " + e.Ev)
		}
	}
}

func (n *oracleNode) resetLine(b int) jm {
	return jm{"ev": "reset", "b": b, "a": jm{"cfg": n.cfg}, "cfg": n.cfg, "ok": true, "code": 0, "err": "", "panic": false, "st": n.project()}
}

func readOracleBehaviours(path string) [][]OEvent {
	var out [][]OEvent
	for _, b := range ReadBehaviours(path) {
		// re-marshal through the typed form
		bz, _ := json.Marshal(b)
		var evs []OEvent
		must(json.Unmarshal(bz, &evs))
		out = append(out, evs)
	}
	return out
}

func runOracle(args []string) int {
	fs := flag.NewFlagSet("oracle", flag.ExitOnError)
	in := fs.String("in", "", "behaviours (ndjson of event arrays; first event = Init with cfg)")
	out := fs.String("out", "", "trace output (ndjson)")
	_ = fs.Int64("seed", 1, "seed (unused: the oracle driver has no random choices)")
	fs.Parse(args)
	tw := NewTraceWriter(*out)
	defer tw.Close()
	behs := readOracleBehaviours(*in)
	for bi, evs := range behs {
		if len(evs) == 0 || evs[0].Ev != "Init" || evs[0].A.Cfg == nil {
			panic("oracle: behaviour must start with an Init event")
		}
		cfg := *evs[0].A.Cfg
		hasRestart := false
		for _, e := range evs {
			if e.Ev == "EndBlock" && e.A.Restart {
				hasRestart = true
			}
		}
		// continuous twin
		twin := map[int]jm{}
		if hasRestart {
			n := newOracleNode(cfg)
			n.initChain("")
			twin[0] = n.resetLine(bi)
			n.runEvents(evs, 1, -1, false, func(i int, line jm) { twin[i] = line })
		}
		n := newOracleNode(cfg)
		n.initChain("")
		lines := map[int]jm{0: n.resetLine(bi)}
		n.runEvents(evs, 1, -1, true, func(i int, line jm) { lines[i] = line })
		for i := 0; i < len(evs); i++ {
			line, ok := lines[i]
			if !ok {
				break // halted
			}
			line["i"] = i
			if t, ok := twin[i]; ok && t["panic"] != true {
				line["cst"], line["cok"] = t["st"], t["ok"]
			} else {
				line["cst"], line["cok"] = line["st"], line["ok"]
			}
			tw.Emit(line)
		}
	}
	fmt.Printf("oracle: behaviours=%d lines=%d\n", len(behs), tw.n)
	return 0
}

// one node life as an OS process
func runOracleNode(args []string) int {
	fs := flag.NewFlagSet("oracle-node", flag.ExitOnError)
	db := fs.String("db", "", "goleveldb directory")
	script := fs.String("script", "", "file with ONE behaviour (JSON array of events)")
	from := fs.Int("from", 0, "number of blocks already committed in the DB")
	to := fs.Int("to", -1, "exit after Commit of this block (-1: run the whole script)")
	out := fs.String("out", "", "lines output (ndjson, appended)")
	fs.Parse(args)
	bz, err := os.ReadFile(*script)
	must(err)
	var evs []OEvent
	must(json.Unmarshal(bz, &evs))
	cfg := *evs[0].A.Cfg
	f, err := os.OpenFile(*out, os.O_APPEND|os.O_CREATE|os.O_WRONLY, 0o644)
	must(err)
	defer f.Close()
	emit := func(i int, line jm) {
		line["i"] = i
		b, err := json.Marshal(line)
		must(err)
		f.Write(append(b, '\n'))
	}
	n := newOracleNode(cfg)
	start := 1
	if *from == 0 {
		n.initChain(*db)
		emit(0, n.resetLine(0))
	} else {
		// locate the from-th EndBlock event: this life emits its line (after its own BeginBlock)
		cnt, idx := 0, -1
		for i, e := range evs {
			if e.Ev == "EndBlock" {
				cnt++
				if cnt == *from {
					idx = i
					break
				}
			}
		}
		if idx < 0 {
			panic("oracle-node: -from beyond the script")
		}
		n.open(*db)
		if n.header.Height != int64(*from)+1 {
			panic(fmt.Sprintf("oracle-node: DB is at height %d, expected %d", n.header.Height-1, *from))
		}
		if n.openHalt != "" {
			h := n.openHalt
			if len(h) > 300 {
				h = h[:300]
			}
			emit(idx, jm{"ev": "EndBlock", "a": jm{"restart": true, "vu": n.lastVU}, "ok": false, "code": 0, "err": h, "panic": true, "st": jm{}})
			return 0
		}
		emit(idx, jm{"ev": "EndBlock", "a": jm{"restart": true, "vu": n.lastVU}, "ok": true, "code": 0, "err": "", "panic": false, "st": n.project()})
		start = idx + 1
	}
	stop := -1
	if *to >= 0 {
		stop = *to - *from
	}
	n.runEvents(evs, start, stop, false, emit)
	return 0
}

func init() {
	commands["oracle"] = runOracle
	commands["oracle-node"] = runOracleNode
}
