// Oracle admission family driver (abci-mode): executes TLC-generated behaviours of MC_OracleAdm on
// a full ExocoreApp through the real ABCI entry points (CheckTx / ReCheckTx / DeliverTx with real
// signed MsgCreatePrice transactions, EndBlock / Commit / BeginBlock) and records, after every
// event, the admission-relevant projection (spec/OracleAdm.tla state) plus byte-level digests of
// every module store (deliver state and check state) and of the oracle's in-memory state.
//
// Events (behaviour input, one JSON array per line):
//   {"ev":"Tx","a":{"mode":"deliver|check|recheck","sender":"v1|a1|..","sig":"ok|zero|forged|pkmismatch|none",
//                   "size":"ok|big","msgs":[{"f":1,"base":1,"nonce":1,"dets":["d1"],"dec":"ok|bad","ts":0,"src":"ok|bad|oor|none"}]}}
//   {"ev":"NextBlock","a":{}}        EndBlock(h); Commit; BeginBlock(h+1)
//   {"ev":"ValOut","a":{"v":"v3"}}   the validator's operator opts out of the chain AVS (keeper call on the
//                                    deliver state); takes effect at the next dogfood epoch end
//   {"ev":"Epoch","a":{}}            like NextBlock, but the next block's time jumps past the dogfood epoch end
package main

import (
	"crypto/sha256"
	"encoding/hex"
	"encoding/json"
	"flag"
	"os"
	"fmt"
	"sort"
	"strconv"
	"strings"
	"time"

	abci "github.com/cometbft/cometbft/abci/types"
	"github.com/cosmos/cosmos-sdk/crypto/keys/ed25519"
	cryptotypes "github.com/cosmos/cosmos-sdk/crypto/types"
	"github.com/cosmos/cosmos-sdk/store/rootmulti"
	storetypes "github.com/cosmos/cosmos-sdk/store/types"
	sdk "github.com/cosmos/cosmos-sdk/types"
	"github.com/cosmos/cosmos-sdk/types/tx/signing"
	authsigning "github.com/cosmos/cosmos-sdk/x/auth/signing"
	"github.com/cosmos/cosmos-sdk/client"
	"github.com/evmos/evmos/v16/encoding"

	exocoreapp "github.com/ExocoreNetwork/exocore/app"
	oraclekeeper "github.com/ExocoreNetwork/exocore/x/oracle/keeper"
	oracletypes "github.com/ExocoreNetwork/exocore/x/oracle/types"
)

type AdmFeeder struct {
	Start    uint64 `json:"start"`
	Interval uint64 `json:"interval"`
	End      uint64 `json:"endb"`
}

type AdmCfg struct {
	Vals     []string             `json:"vals"`    // model ids "v1".. ; "v<i>" is operator index i-1
	Power    map[string]int64     `json:"power"`   // genesis power
	Others   []string             `json:"others"`  // non-validator senders
	Feeders  map[string]AdmFeeder `json:"feeders"` // feeder id (decimal string, from 1) -> schedule
	MaxNonce int32                `json:"maxNonce"`
	MaxDetID int32                `json:"maxDetID"`
	ThA      int32                `json:"thA"`
	ThB      int32                `json:"thB"`
	Dets     []string             `json:"dets"`
	Dev      []string             `json:"dev"` // deviations of the current tree the strict lane assumes (echoed to the trace header)
	Epoch    string               `json:"epoch"`
}

type AdmMsg struct {
	F     uint64   `json:"f"`
	Base  uint64   `json:"base"`
	Nonce int32    `json:"nonce"`
	Dets  []string `json:"dets"`
	Dec   string   `json:"dec"`
	Ts    int64    `json:"ts"`
	Src   string   `json:"src"`
}

type AdmTx struct {
	Mode   string   `json:"mode"`
	Sender string   `json:"sender"`
	Sig    string   `json:"sig"`
	Size   string   `json:"size"`
	Msgs   []AdmMsg `json:"msgs"`
}

type admDriver struct {
	w      *World
	ac     AdmCfg
	txCfg  client.TxConfig
	keys   map[string]*ed25519.PrivKey // sender model id -> key
	nameOf map[string]string           // any address string (acc bech32 / cons bech32 / hex) -> model id
	out    []string // validators whose operator opted out (driver-side record of accepted ValOut calls)
	ep     bool     // the dogfood epoch ended in the BeginBlock of the current block
	lastSt interface{}
	lastDg interface{}
	hdrT   time.Time
	h      int64
	nfeed  int
}

func runOracleAdm(args []string) int {
	fs := flag.NewFlagSet("oracleadm", flag.ExitOnError)
	in := fs.String("in", "", "behaviours (ndjson of event arrays)")
	out := fs.String("out", "", "trace output (ndjson)")
	seed := fs.Int64("seed", 1, "seed")
	cfgS := fs.String("cfg", "", "AdmCfg JSON")
	fs.Parse(args)
	_ = seed
	var ac AdmCfg
	must(json.Unmarshal([]byte(*cfgS), &ac))
	tw := NewTraceWriter(*out)
	defer tw.Close()
	behaviours := ReadBehaviours(*in)
	for bi, b := range behaviours {
		d := newAdmDriver(ac)
		d.lastSt, d.lastDg = d.project(), d.digests()
		tw.Emit(map[string]interface{}{"ev": "reset", "b": bi, "halt": false, "cfg": d.cfgJSON(), "st": d.lastSt, "dg": d.lastDg})
		for _, e := range b {
			if halted := d.exec(e, tw); halted {
				break // the chain is dead: nothing after a block-phase panic is meaningful
			}
		}
	}
	fmt.Printf("oracleadm: behaviours=%d events=%d\n", len(behaviours), tw.n)
	return 0
}

func init() { commands["oracleadm"] = runOracleAdm }

func admValOp(v string) int {
	var i int
	fmt.Sscanf(v, "v%d", &i)
	return i - 1
}

func newAdmDriver(ac AdmCfg) *admDriver {
	gc := DefaultGenCfg()
	gc.NOperators = len(ac.Vals) + 1
	gc.NStakers = 1
	nf := len(ac.Feeders)
	gc.Assets = []AssetCfg{{ID: "lst", Decimals: 6, Price: "1", PriceDec: 0}}
	for i := 2; i <= nf; i++ {
		gc.Assets = append(gc.Assets, AssetCfg{ID: fmt.Sprintf("lst%d", i), Decimals: 6, Price: "1", PriceDec: 0})
	}
	gc.Validators = nil
	for _, v := range ac.Vals {
		gc.Validators = append(gc.Validators, ValCfg{Op: admValOp(v), Power: ac.Power[v]})
	}
	if ac.Epoch != "" {
		gc.DogfoodEpoch = ac.Epoch
	}
	gc.OracleMut = func(p *oracletypes.Params, g *oracletypes.GenesisState) {
		p.MaxNonce = ac.MaxNonce
		p.MaxDetId = ac.MaxDetID
		p.ThresholdA = ac.ThA
		p.ThresholdB = ac.ThB
		p.Sources = []*oracletypes.Source{
			{Name: "0 position is reserved"},
			{Name: "Chainlink", Entry: &oracletypes.Endpoint{Offchain: map[uint64]string{0: ""}}, Valid: true, Deterministic: true},
			{Name: "Second", Entry: &oracletypes.Endpoint{Offchain: map[uint64]string{0: ""}}, Valid: true, Deterministic: true},
		}
		p.Rules = []*oracletypes.RuleSource{{}, {SourceIDs: []uint64{1}}}
		p.TokenFeeders = []*oracletypes.TokenFeeder{{}}
		for i := 1; i <= nf; i++ {
			f := ac.Feeders[strconv.Itoa(i)]
			p.TokenFeeders = append(p.TokenFeeders, &oracletypes.TokenFeeder{TokenID: uint64(i), RuleID: 1, StartRoundID: 2,
				StartBaseBlock: f.Start, Interval: f.Interval, EndBlock: f.End})
		}
		if err := p.Validate(); err != nil {
			panic(fmt.Sprintf("oracle params invalid: %v", err))
		}
	}
	w := NewWorld(gc)
	// what a fresh process does in the oracle's BeginBlock (sync.Once there fires only once per process)
	_ = oraclekeeper.GetCaches()
	_ = oraclekeeper.GetAggregatorContext(w.Ctx, w.App.OracleKeeper)

	d := &admDriver{w: w, ac: ac, txCfg: encoding.MakeConfig(exocoreapp.ModuleBasics).TxConfig, keys: map[string]*ed25519.PrivKey{},
		nameOf: map[string]string{}, hdrT: w.Header.Time, h: w.Header.Height, nfeed: nf}
	for _, v := range ac.Vals {
		d.keys[v] = w.ConsKeys[fmt.Sprintf("k%d", admValOp(v)+1)]
	}
	for _, o := range ac.Others {
		d.keys[o] = ConsKey("other:" + o)
	}
	d.keys["attacker"] = ConsKey("attacker")
	for id, k := range d.keys {
		a := k.PubKey().Address()
		d.nameOf[sdk.AccAddress(a).String()] = id
		d.nameOf[sdk.ConsAddress(a).String()] = id
		d.nameOf[hex.EncodeToString(a)] = id
	}
	return d
}

func (d *admDriver) cfgJSON() map[string]interface{} {
	feeders := map[string]interface{}{}
	for k, f := range d.ac.Feeders {
		feeders[k] = map[string]interface{}{"start": f.Start, "interval": f.Interval, "endb": f.End}
	}
	dev := d.ac.Dev
	if dev == nil {
		dev = []string{}
	}
	return map[string]interface{}{"vals": d.ac.Vals, "power": d.ac.Power, "others": d.ac.Others, "feeders": feeders,
		"maxNonce": d.ac.MaxNonce, "maxDetID": d.ac.MaxDetID, "thA": d.ac.ThA, "thB": d.ac.ThB, "dets": d.ac.Dets, "dev": dev}
}

func (d *admDriver) deliverCtx() sdk.Context { return d.w.App.BaseApp.NewContext(false, d.w.Header) }
func (d *admDriver) checkCtx() sdk.Context   { return d.w.App.BaseApp.NewContext(true, d.w.Header) }

// ---------------------------------------------------------------------------------------------
// transactions

const admLayout = "2006-01-02 15:04:05"

func (d *admDriver) buildTx(a AdmTx) ([]byte, error) {
	priv := d.keys[a.Sender]
	if priv == nil {
		return nil, fmt.Errorf("unknown sender %s", a.Sender)
	}
	creator := sdk.AccAddress(priv.PubKey().Address()).String()
	var msgs []sdk.Msg
	for i, m := range a.Msgs {
		var ps []*oracletypes.PriceSource
		if m.Src != "none" {
			sid := uint64(1)
			switch m.Src {
			case "bad":
				sid = 2
			case "oor":
				sid = 7
			}
			src := &oracletypes.PriceSource{SourceID: sid}
			for _, det := range m.Dets {
				dec := int32(0)
				if m.Dec == "bad" {
					dec = 3
				}
				// every source round carries the genesis price of the staking asset: a finalised round must not move
				// the validators' USD value (voting power is recomputed from oracle prices at the dogfood epoch end)
				price := "1"
				src.Prices = append(src.Prices, &oracletypes.PriceTimeDetID{Price: price, Decimal: dec,
					Timestamp: d.hdrT.Add(time.Duration(m.Ts) * time.Second).UTC().Format(admLayout), DetID: det})
			}
			if a.Size == "big" && i == 0 {
				src.Desc = strings.Repeat("x", 1100)
			}
			ps = append(ps, src)
		}
		msgs = append(msgs, &oracletypes.MsgCreatePrice{Creator: creator, FeederID: m.F, Prices: ps, BasedBlock: m.Base, Nonce: m.Nonce})
	}
	b := d.txCfg.NewTxBuilder()
	if err := b.SetMsgs(msgs...); err != nil {
		return nil, err
	}
	if a.Size == "big" && (len(a.Msgs) == 0 || a.Msgs[0].Src == "none") {
		b.SetMemo(strings.Repeat("x", 1100))
	}
	mode := signing.SignMode_SIGN_MODE_DIRECT
	if a.Sig != "none" {
		var pk cryptotypes.PubKey = priv.PubKey()
		signer := priv
		switch a.Sig {
		case "pkmismatch":
			pk = d.keys["attacker"].PubKey()
			signer = d.keys["attacker"]
		case "forged":
			signer = d.keys["attacker"]
		}
		sig := signing.SignatureV2{PubKey: pk, Data: &signing.SingleSignatureData{SignMode: mode}, Sequence: 0}
		if err := b.SetSignatures(sig); err != nil {
			return nil, err
		}
		bytesToSign, err := d.txCfg.SignModeHandler().GetSignBytes(mode, authsigning.SignerData{ChainID: d.w.Cfg.ChainID}, b.GetTx())
		if err != nil {
			return nil, err
		}
		sb, err := signer.Sign(bytesToSign)
		if err != nil {
			return nil, err
		}
		if a.Sig == "zero" {
			sb = make([]byte, 64)
		}
		sig.Data = &signing.SingleSignatureData{SignMode: mode, Signature: sb}
		if err := b.SetSignatures(sig); err != nil {
			return nil, err
		}
		// self-check of the harness' own notion of "correctly signed"
		good := pk.VerifySignature(bytesToSign, sb) && pk.Equals(priv.PubKey())
		if good != (a.Sig == "ok") {
			return nil, fmt.Errorf("harness signature self-check failed for kind %s", a.Sig)
		}
	}
	return d.txCfg.TxEncoder()(b.GetTx())
}

func classify(code uint32, log string) string {
	switch {
	case code == 0:
		return "ok"
	case strings.Contains(log, "failed to execute message"):
		return "msg"
	case strings.Contains(log, "recovered:") || strings.Contains(log, "panic"):
		return "panic"
	}
	return "ante"
}

func (d *admDriver) exec(e BEvent, tw *TraceWriter) (halted bool) {
	line := map[string]interface{}{"ev": e.Ev, "halt": false}
	switch e.Ev {
	case "Tx":
		var a AdmTx
		raw, _ := json.Marshal(e.A)
		must(json.Unmarshal(raw, &a))
		for i := range a.Msgs {
			if a.Msgs[i].Dets == nil {
				a.Msgs[i].Dets = []string{}
			}
		}
		line["a"] = a
		bz, err := d.buildTx(a)
		if err != nil {
			line["res"] = "ante"
			line["err"] = "BUILD: " + err.Error()
			line["build"] = false
			break
		}
		line["size"] = len(bz)
		line["build"] = true
		func() {
			defer func() {
				if r := recover(); r != nil {
					line["res"] = "panic"
					line["err"] = fmt.Sprint("UNRECOVERED PANIC: ", r)
					line["halt"] = true
				}
			}()
			switch a.Mode {
			case "deliver":
				r := d.w.App.DeliverTx(abci.RequestDeliverTx{Tx: bz})
				line["res"], line["code"], line["codespace"], line["log"] = classify(r.Code, r.Log), r.Code, r.Codespace, r.Log
				line["gasWanted"], line["gasUsed"] = r.GasWanted, r.GasUsed
			case "check", "recheck":
				t := abci.CheckTxType_New
				if a.Mode == "recheck" {
					t = abci.CheckTxType_Recheck
				}
				r := d.w.App.CheckTx(abci.RequestCheckTx{Tx: bz, Type: t})
				line["res"], line["code"], line["codespace"], line["log"] = classify(r.Code, r.Log), r.Code, r.Codespace, r.Log
				line["gasWanted"], line["gasUsed"], line["priority"] = r.GasWanted, r.GasUsed, strconv.FormatInt(r.Priority, 10)
			default:
				panic("unknown mode " + a.Mode)
			}
		}()
	case "NextBlock", "Epoch":
		line["a"] = map[string]interface{}{}
		func() {
			defer func() {
				if r := recover(); r != nil {
					line["err"] = fmt.Sprint("HALT: ", r)
					line["halt"] = true
				}
			}()
			d.w.App.EndBlock(abci.RequestEndBlock{Height: d.h})
			d.w.App.Commit()
			d.h++
			step := time.Second
			if e.Ev == "Epoch" {
				step = 25 * time.Hour
			}
			d.ep = e.Ev == "Epoch"
			d.hdrT = d.hdrT.Add(step)
			hd := d.w.Header
			hd.Height, hd.Time = d.h, d.hdrT
			d.w.Header = hd
			d.w.App.BeginBlock(abci.RequestBeginBlock{Header: hd})
		}()
		line["res"] = "ok"
	case "ValOut":
		v := e.str("v")
		line["a"] = map[string]interface{}{"v": v}
		err := d.w.App.OperatorKeeper.OptOut(d.deliverCtx(), d.w.OpAddrs[admValOp(v)], d.w.AvsAddr)
		line["res"] = "ok"
		if err != nil {
			line["res"], line["err"] = "ante", err.Error()
		} else {
			d.out = append(d.out, v)
			sort.Strings(d.out)
		}
	default:
		panic("unknown event " + e.Ev)
	}
	if os.Getenv("ADM_RAWMEM") != "" {
		line["rawmem"] = deepDump(oraclekeeper.VerifAdmMemRoots()["agc"])
	}
	halted = line["halt"] == true
	func() {
		defer func() {
			if r := recover(); r != nil { // projection impossible after a halt
				line["st"], line["dg"] = d.lastSt, d.lastDg
			}
		}()
		if halted {
			panic("halted")
		}
		line["st"] = d.project()
		line["dg"] = d.digests()
		d.lastSt, d.lastDg = line["st"], line["dg"]
	}()
	tw.Emit(line)
	return halted
}

// ---------------------------------------------------------------------------------------------
// projection

func (d *admDriver) model(addr string) string {
	if m, ok := d.nameOf[addr]; ok {
		return m
	}
	return addr
}

func (d *admDriver) nonceMap(ctx sdk.Context) map[string]int {
	out := map[string]int{}
	st := ctx.KVStore(d.w.App.GetKey(oracletypes.StoreKey))
	it := sdk.KVStorePrefixIterator(st, oracletypes.KeyPrefix(oracletypes.NonceKeyPrefix))
	defer it.Close()
	for ; it.Valid(); it.Next() {
		var n oracletypes.ValidatorNonce
		d.w.App.AppCodec().MustUnmarshal(it.Value(), &n)
		for _, e := range n.NonceList {
			out[fmt.Sprintf("%s|%d", d.model(n.Validator), e.FeederID)] = int(e.Value)
		}
	}
	return out
}

func (d *admDriver) project() map[string]interface{} {
	ctx := d.deliverCtx()
	out := d.out
	if out == nil {
		out = []string{}
	}
	st := map[string]interface{}{"h": d.h, "out": out, "ep": d.ep}
	vals := []string{}
	for _, v := range d.w.App.StakingKeeper.GetAllExocoreValidators(ctx) {
		vals = append(vals, d.model(sdk.ConsAddress(v.Address).String()))
	}
	sort.Strings(vals)
	st["vals"] = vals
	st["nonce"] = d.nonceMap(ctx)
	st["cnonce"] = d.nonceMap(d.checkCtx())
	next := map[string]uint64{}
	for i := 1; i <= d.nfeed; i++ {
		next[strconv.Itoa(i)] = d.w.App.OracleKeeper.GetNextRoundID(ctx, uint64(i))
	}
	st["next"] = next

	// in-memory rounds / workers of agc: generic reflection dump, pieces looked up BY NAME with "absent" fall-backs
	// (a renamed / re-typed internal becomes strict-lane drift, never a panic)
	rounds := map[string]interface{}{}
	wk := map[string]interface{}{}
	mvals := []string{}
	agc := deepDump(oraclekeeper.VerifAdmMemRoots()["agc"])
	for a := range dmap(dfield(agc, "validatorsPower")) {
		mvals = append(mvals, d.model(a))
	}
	for f, r := range dmap(dfield(agc, "rounds")) {
		status := "closed"
		if n, ok := dint(dfield(r, "status")); ok && n == 1 {
			status = "open"
		}
		base, _ := dint(dfield(r, "basedBlock"))
		nxt, _ := dint(dfield(r, "nextRoundID"))
		rounds[f] = map[string]interface{}{"status": status, "base": base, "next": nxt}
	}
	for f, w := range dmap(dfield(agc, "aggregators", "workers")) {
		sealed, _ := dfield(w, "sealed").(bool)
		o := map[string]interface{}{"sealed": sealed}
		fnon := map[string]interface{}{}
		seen := map[string]interface{}{}
		fl := dfield(w, "f", "filter")
		for k, set := range dmap(dfield(fl, "validatorNonce")) {
			var l []int
			for _, x := range dlist(set) {
				if n, ok := dint(x); ok {
					l = append(l, n)
				}
			}
			sort.Ints(l)
			if len(l) > 0 {
				fnon[d.model(k)] = l
			}
		}
		for k, set := range dmap(dfield(fl, "validatorSource")) {
			var l []string
			for _, x := range dlist(set) {
				l = append(l, dstr(x))
			}
			sort.Strings(l)
			if len(l) == 0 {
				continue
			}
			// the key names a creator (bech32) and a source id, as one string or as a struct rendered "creator|id"
			name := k
			for a, m := range d.nameOf {
				if i := strings.Index(k, a); i >= 0 {
					rest := k[:i] + k[i+len(a):]
					digits := strings.Map(func(r rune) rune {
						if r >= '0' && r <= '9' {
							return r
						}
						return -1
					}, rest)
					name = m + "|" + digits
				}
			}
			seen[name] = l
		}
		o["fnon"], o["seen"] = fnon, seen
		reps := []string{}
		conf := ""
		cpow := map[string]interface{}{}
		ag := dfield(w, "a", "aggregator")
		for _, r := range dlist(dfield(ag, "reports")) {
			reps = append(reps, d.model(dstr(dfield(r, "validator"))))
		}
		conf = dstr(dfield(dfield(ag, "dsPrices"), "1"))
		o["final"] = dfield(ag, "finalPrice") != nil
		calc := dfield(w, "c", "calculator")
		for _, r := range dlist(dfield(dfield(dfield(calc, "deterministicSource"), "1"), "roundPricesList")) {
			tot := 0
			for _, p := range dlist(dfield(r, "prices")) {
				n, _ := dint(dfield(p, "power"))
				tot += n
			}
			if id := dstr(dfield(r, "detID")); id != "" {
				cpow[id] = tot
			}
		}
		sort.Strings(reps)
		o["reps"], o["conf"], o["cpow"] = reps, conf, cpow
		wk[f] = o
	}
	sort.Strings(mvals)
	st["mvals"] = mvals
	st["rounds"] = rounds
	st["wk"] = wk
	return st
}

// ---------------------------------------------------------------------------------------------
// digests

func kvDigest(st sdk.KVStore, skipPrefix []byte) string {
	h := sha256.New()
	it := st.Iterator(nil, nil)
	defer it.Close()
	var lb [8]byte
	for ; it.Valid(); it.Next() {
		k, v := it.Key(), it.Value()
		if skipPrefix != nil && len(k) >= len(skipPrefix) && string(k[:len(skipPrefix)]) == string(skipPrefix) {
			continue
		}
		for i, n := 0, len(k); i < 8; i++ {
			lb[i] = byte(n >> (8 * i))
		}
		h.Write(lb[:])
		h.Write(k)
		for i, n := 0, len(v); i < 8; i++ {
			lb[i] = byte(n >> (8 * i))
		}
		h.Write(lb[:])
		h.Write(v)
	}
	return hex.EncodeToString(h.Sum(nil))[:24]
}

// moduleDigests: sha256 over the sorted (key,value) pairs of every IAVL module store as seen by ctx.
func (d *admDriver) moduleDigests(ctx sdk.Context) (mods map[string]string, others string, oraRest string) {
	defer func() {
		// check state does not exist before InitChain has set it / is empty before the first commit
		if r := recover(); r != nil {
			mods, others, oraRest = map[string]string{}, "unavailable", "unavailable"
		}
	}()
	rs := d.w.App.CommitMultiStore().(*rootmulti.Store)
	mods = map[string]string{}
	var names []string
	keys := rs.StoreKeysByName()
	for n, k := range keys {
		if _, ok := k.(*storetypes.KVStoreKey); ok {
			names = append(names, n)
		}
	}
	sort.Strings(names)
	h := sha256.New()
	for _, n := range names {
		dg := kvDigest(ctx.KVStore(keys[n]), nil)
		mods[n] = dg
		if n != oracletypes.StoreKey {
			h.Write([]byte(n + ":" + dg + ";"))
		}
	}
	others = hex.EncodeToString(h.Sum(nil))[:24]
	oraRest = kvDigest(ctx.KVStore(keys[oracletypes.StoreKey]), oracletypes.KeyPrefix(oracletypes.NonceKeyPrefix))
	return
}

func (d *admDriver) digests() map[string]interface{} {
	mods, others, oraRest := d.moduleDigests(d.deliverCtx())
	cmods, cothers, coraRest := d.moduleDigests(d.checkCtx())
	mem := map[string]interface{}{}
	for k, v := range oraclekeeper.VerifAdmMemRoots() {
		mem[k] = deepDump(v)
	}
	bz, _ := json.Marshal(mem)
	full := sha256.Sum256(bz)
	// "core": without the filters' per-validator nonce sets (the in-memory mirror of the nonce store)
	dropFields(mem["agc"], "nonce")
	blankIntSetMaps(mem["agc"])
	cbz, _ := json.Marshal(mem)
	core := sha256.Sum256(cbz)
	return map[string]interface{}{"mods": mods, "kv": others, "ora": mods[oracletypes.StoreKey], "oraRest": oraRest,
		"ckv": cothers, "cora": cmods[oracletypes.StoreKey], "coraRest": coraRest,
		"mem": hex.EncodeToString(core[:])[:24], "memFull": hex.EncodeToString(full[:])[:24]}
}
