// Staking family driver (ctx-mode, whole blocks): executes TLC-generated behaviours of MC_Staking
// against the real operator / delegation / dogfood / epochs code of a full ExocoreApp and records,
// after every event, the projection of spec/Staking.tla's store for validation by
// spec/Trace_Staking.tla  (properties C06, C07, C16).
//
// Entry points: operator msg server (OptIntoAVS with key, OptOutOfAVS, SetConsKey), delegation
// keeper (deposit + DelegateTo, UndelegateFrom), dogfood StakingKeeper interface (Jail / Unjail by
// consensus address), dogfood msg server (UpdateParams), and whole blocks: app.EndBlocker /
// app.BeginBlocker with block times chosen so that the dogfood epoch ("minute") ends or not. The
// real hook chain epochs -> operator (USD values) -> dogfood (queues) -> dogfood.EndBlock runs.
//
// Model ids: operators o1 < o2 < ... by ADDRESS BYTES (store order of chain->operator->key and
// tie-break order of utils.SortByPower); keys k1 < k2 < ... by tmproto PublicKey.String() (the
// order ApplyValidatorChanges sorts by).
package main

import (
	"bytes"
	"encoding/binary"
	"encoding/json"
	"flag"
	"fmt"
	"math/big"
	"math/rand"
	"sort"
	"time"

	sdkmath "cosmossdk.io/math"
	abci "github.com/cometbft/cometbft/abci/types"
	tmprotocrypto "github.com/cometbft/cometbft/proto/tendermint/crypto"
	tmtypes "github.com/cometbft/cometbft/types"
	"github.com/cosmos/cosmos-sdk/crypto/keys/ed25519"
	storetypes "github.com/cosmos/cosmos-sdk/store/types"
	sdk "github.com/cosmos/cosmos-sdk/types"
	authtypes "github.com/cosmos/cosmos-sdk/x/auth/types"
	govtypes "github.com/cosmos/cosmos-sdk/x/gov/types"
	"github.com/ethereum/go-ethereum/common"

	keytypes "github.com/ExocoreNetwork/exocore/types/keys"
	assetskeeper "github.com/ExocoreNetwork/exocore/x/assets/keeper"
	assetstypes "github.com/ExocoreNetwork/exocore/x/assets/types"
	delegationtypes "github.com/ExocoreNetwork/exocore/x/delegation/types"
	dogfoodkeeper "github.com/ExocoreNetwork/exocore/x/dogfood/keeper"
	dogfoodtypes "github.com/ExocoreNetwork/exocore/x/dogfood/types"
	operatorkeeper "github.com/ExocoreNetwork/exocore/x/operator/keeper"
	operatortypes "github.com/ExocoreNetwork/exocore/x/operator/types"
	oraclekeeper "github.com/ExocoreNetwork/exocore/x/oracle/keeper"
)

type stkGenVal struct {
	K string `json:"k"`
	P int64  `json:"p"`
}

type StakingCfg struct {
	Operators int                  `json:"operators"`
	Keys      int                  `json:"keys"`
	GenVals   map[string]stkGenVal `json:"genvals"` // model operator -> genesis key / power
	MaxVals   uint32               `json:"maxVals"`
	N         uint32               `json:"n"`
	Deci      uint32               `json:"deci"`   // asset decimals (power = amount / 10^deci)
	Scales    []string             `json:"scales"` // amount multipliers (one per behaviour, by seed)
	EpochID   string               `json:"epochId"`
	Devs      []string             `json:"devs"` // deviations of spec/Staking.tla the strict lane assumes (current tree)
}

const stkEpochDur = time.Minute

func (e BEvent) i64(k string) int64 { return e.big(k).Int64() }

func tmKeyString(pk *ed25519.PrivKey) string {
	return keytypes.NewWrappedConsKeyFromSdkKey(pk.PubKey()).ToTmProtoKey().String()
}

// stkPlan computes, before the world exists, (a) model operator -> index used by common.go
// (bech32 order) and (b) the consensus keys behind the model key ids.
type stkPlan struct {
	opCommonIdx map[string]int // "o1" -> index into World.OpAddrs
	keys        map[string]*ed25519.PrivKey
	vals        []ValCfg
}

func planStaking(sc StakingCfg) (*stkPlan, error) {
	n := sc.Operators
	type opx struct {
		addr sdk.AccAddress
	}
	addrs := make([]sdk.AccAddress, n)
	for i := 0; i < n; i++ {
		addrs[i] = sdk.AccAddress(EthKey(fmt.Sprintf("operator%d", i+1)).PubKey().Address().Bytes())
	}
	// common.go order: by bech32 string
	cm := append([]sdk.AccAddress{}, addrs...)
	sort.Slice(cm, func(i, j int) bool { return cm[i].String() < cm[j].String() })
	// model order: by bytes
	md := append([]sdk.AccAddress{}, addrs...)
	sort.Slice(md, func(i, j int) bool { return bytes.Compare(md[i], md[j]) < 0 })
	p := &stkPlan{opCommonIdx: map[string]int{}, keys: map[string]*ed25519.PrivKey{}}
	for mi, a := range md {
		for ci, b := range cm {
			if a.Equals(b) {
				p.opCommonIdx[fmt.Sprintf("o%d", mi+1)] = ci
			}
		}
	}
	// genesis keys are fixed by common.go: label k<commonIdx+1>
	type gk struct {
		rank int
		pk   *ed25519.PrivKey
		s    string
	}
	var gks []gk
	var ops []string
	for o := range sc.GenVals {
		ops = append(ops, o)
	}
	sort.Strings(ops)
	for _, o := range ops {
		gv := sc.GenVals[o]
		ci, ok := p.opCommonIdx[o]
		if !ok {
			return nil, fmt.Errorf("unknown operator %s", o)
		}
		pk := ConsKey(fmt.Sprintf("k%d", ci+1))
		var r int
		fmt.Sscanf(gv.K, "k%d", &r)
		gks = append(gks, gk{r, pk, tmKeyString(pk)})
		p.vals = append(p.vals, ValCfg{Op: ci, Power: gv.P})
	}
	sort.Slice(gks, func(i, j int) bool { return gks[i].s < gks[j].s })
	for i := 1; i < len(gks); i++ {
		if gks[i].rank <= gks[i-1].rank {
			var desc []string
			for _, g := range gks {
				desc = append(desc, fmt.Sprintf("k%d", g.rank))
			}
			return nil, fmt.Errorf("genesis key ids are not in key-string order; actual ascending order of the configured genesis keys: %v", desc)
		}
	}
	// candidates for the remaining ranks
	type cand struct {
		pk *ed25519.PrivKey
		s  string
	}
	var cands []cand
	for i := 1; i <= 200; i++ {
		pk := ConsKey(fmt.Sprintf("x%d", i))
		cands = append(cands, cand{pk, tmKeyString(pk)})
	}
	sort.Slice(cands, func(i, j int) bool { return cands[i].s < cands[j].s })
	lo := ""
	gi := 0
	for r := 1; r <= sc.Keys; r++ {
		if gi < len(gks) && gks[gi].rank == r {
			p.keys[fmt.Sprintf("k%d", r)] = gks[gi].pk
			lo = gks[gi].s
			gi++
			continue
		}
		hi := ""
		if gi < len(gks) {
			hi = gks[gi].s
		}
		found := false
		for _, c := range cands {
			if c.s > lo && (hi == "" || c.s < hi) {
				p.keys[fmt.Sprintf("k%d", r)] = c.pk
				lo = c.s
				found = true
				break
			}
		}
		if !found {
			return nil, fmt.Errorf("no candidate key for rank %d", r)
		}
	}
	return p, nil
}

type stakingDriver struct {
	w     *World
	sc    StakingCfg
	plan  *stkPlan
	ctx   sdk.Context
	scale *big.Int

	ops       []string                  // model ids in order
	opAddr    map[string]sdk.AccAddress // model -> address
	opModel   map[string]string         // bech32 -> model
	keys      []string                  // model key ids in order
	wrapped   map[string]keytypes.WrappedConsKey
	keyByPub  map[string]string // hex(pubkey bytes) -> model
	keyByCons map[string]string // hex(cons addr) -> model
	recID     map[string]int    // string(record key) -> model record id
	nrec      int
	adv       int64 // cumulative epochs of block time advance
	halted    bool
	cmt       *tmtypes.ValidatorSet
	lastRsp   []map[string]interface{}
	cmtOk     bool
	cmtErr    string
}

func runStaking(args []string) int {
	fs := flag.NewFlagSet("staking", flag.ExitOnError)
	in := fs.String("in", "", "behaviours (ndjson of event arrays)")
	out := fs.String("out", "", "trace output (ndjson)")
	seed := fs.Int64("seed", 1, "seed")
	cfgS := fs.String("cfg", "", "StakingCfg JSON")
	describe := fs.Bool("describe", false, "print the operator / key mapping and exit")
	fs.Parse(args)
	var sc StakingCfg
	must(json.Unmarshal([]byte(*cfgS), &sc))
	if sc.EpochID == "" {
		sc.EpochID = "minute"
	}
	if len(sc.Scales) == 0 {
		sc.Scales = []string{"1"}
	}
	plan, err := planStaking(sc)
	if err != nil {
		fmt.Println("staking: bad configuration:", err)
		return 2
	}
	if *describe {
		fmt.Println("model operator -> common.go index:", plan.opCommonIdx)
		for i := 1; i <= sc.Operators; i++ {
			fmt.Printf("genesis key of common index %d: %s\n", i-1, tmKeyString(ConsKey(fmt.Sprintf("k%d", i))))
		}
		return 0
	}
	rng := rand.New(rand.NewSource(*seed))

	gc := DefaultGenCfg()
	gc.NOperators = sc.Operators
	gc.NStakers = 1
	gc.Assets = []AssetCfg{{ID: "lst", Decimals: sc.Deci, Price: "1", PriceDec: 0}}
	gc.Validators = plan.vals
	gc.MaxVals = sc.MaxVals
	gc.EpochsUnbond = sc.N
	gc.DogfoodEpoch = sc.EpochID
	w := NewWorld(gc)
	tw := NewTraceWriter(*out)
	defer tw.Close()

	behaviours := ReadBehaviours(*in)
	for bi, b := range behaviours {
		oraclekeeper.ResetAggregatorContext()
		oraclekeeper.ResetCache()
		oraclekeeper.ResetAggregatorContextCheckTx()
		scale, _ := new(big.Int).SetString(sc.Scales[rng.Intn(len(sc.Scales))], 10)
		ctx, _ := w.Ctx.CacheContext()
		d := newStakingDriver(w, sc, plan, ctx, scale)
		tw.Emit(map[string]interface{}{"ev": "reset", "b": bi, "scale": NB(scale), "cfg": d.cfgJSON(), "st": d.project("reset")})
		for _, e := range b {
			if d.halted {
				break
			}
			d.exec(e, tw)
		}
	}
	fmt.Printf("staking: behaviours=%d events=%d\n", len(behaviours), tw.n)
	return 0
}

func init() { commands["staking"] = runStaking }

func newStakingDriver(w *World, sc StakingCfg, plan *stkPlan, ctx sdk.Context, scale *big.Int) *stakingDriver {
	d := &stakingDriver{w: w, sc: sc, plan: plan, ctx: ctx.WithEventManager(sdk.NewEventManager()), scale: scale,
		opAddr: map[string]sdk.AccAddress{}, opModel: map[string]string{}, wrapped: map[string]keytypes.WrappedConsKey{},
		keyByPub: map[string]string{}, keyByCons: map[string]string{}, recID: map[string]int{}, cmtOk: true}
	for i := 1; i <= sc.Operators; i++ {
		m := fmt.Sprintf("o%d", i)
		a := w.OpAddrs[plan.opCommonIdx[m]]
		d.ops = append(d.ops, m)
		d.opAddr[m] = a
		d.opModel[a.String()] = m
	}
	for i := 1; i <= sc.Keys; i++ {
		m := fmt.Sprintf("k%d", i)
		wk := keytypes.NewWrappedConsKeyFromSdkKey(plan.keys[m].PubKey())
		d.keys = append(d.keys, m)
		d.wrapped[m] = wk
		d.keyByPub[hexOf(wk.ToTmProtoKey().GetEd25519())] = m
		d.keyByCons[hexOf(wk.ToConsAddr())] = m
	}
	// CometBFT's view of the validator set, starting from genesis
	var vs []*tmtypes.Validator
	for _, v := range d.w.App.StakingKeeper.GetAllExocoreValidators(d.ctx) {
		pk, err := v.ConsPubKey()
		must(err)
		wk := keytypes.NewWrappedConsKeyFromSdkKey(pk)
		vs = append(vs, tmtypes.NewValidator(wk.ToTmKey(), v.Power))
	}
	d.cmt = tmtypes.NewValidatorSet(vs)
	// the gateway (client-chain bridge) contract the assets / delegation precompiles accept as caller
	prm, err := w.App.AssetsKeeper.GetParams(d.ctx)
	must(err)
	prm.ExocoreLzAppAddress = gatewayAddr.String()
	must(w.App.AssetsKeeper.SetParams(d.ctx, prm))
	return d
}

func (d *stakingDriver) cfgJSON() map[string]interface{} {
	gen := map[string]interface{}{}
	for o, gv := range d.sc.GenVals {
		gen[o] = map[string]interface{}{"k": gv.K, "p": NB(new(big.Int).Mul(big.NewInt(gv.P), pow10(int(d.sc.Deci))))}
	}
	devs := d.sc.Devs
	if devs == nil {
		devs = []string{}
	}
	return map[string]interface{}{"oord": d.ops, "kord": d.keys, "genvals": gen, "deci": d.sc.Deci, "devs": devs,
		"maxVals": d.sc.MaxVals, "n": d.sc.N, "unbond": operatortypes.UnbondingExpiration, "epochId": d.sc.EpochID}
}

func pow10(n int) *big.Int { return new(big.Int).Exp(big.NewInt(10), big.NewInt(int64(n)), nil) }

func (d *stakingDriver) amt(e BEvent, k string) sdkmath.Int {
	return sdkmath.NewIntFromBigInt(new(big.Int).Mul(e.big(k), d.scale))
}

func (d *stakingDriver) emit(tw *TraceWriter, ev string, args map[string]interface{}, err error, panicked string) {
	line := map[string]interface{}{"ev": ev, "a": args, "ok": err == nil && panicked == "", "panic": panicked != "", "st": d.project(ev)}
	if err != nil {
		line["err"] = err.Error()
	}
	if panicked != "" {
		line["err"] = "PANIC: " + panicked
	}
	tw.Emit(line)
}

// exec runs one behaviour event; "Block" expands to an EndBlock line and a BeginBlock line.
func (d *stakingDriver) exec(e BEvent, tw *TraceWriter) {
	if e.Ev == "Block" {
		d.block(e, tw)
		return
	}
	if e.Ev == "Tail" {
		d.tail(tw)
		return
	}
	args := map[string]interface{}{}
	var err error
	panicked := ""
	// transaction semantics: the message runs on a cache of the block state, written only on
	// success (baseapp.runTx); a panic is recovered by DeliverTx and nothing is written
	cc, write := d.ctx.CacheContext()
	func() {
		defer func() {
			if r := recover(); r != nil {
				panicked = fmt.Sprint(r)
			}
		}()
		err = d.call(cc, e, args)
	}()
	if err == nil && panicked == "" {
		write()
	}
	d.emit(tw, e.Ev, args, err, panicked)
}

func stkEvent(ev string, kv map[string]interface{}) BEvent {
	a := map[string]json.RawMessage{}
	for k, v := range kv {
		bz, err := json.Marshal(v)
		must(err)
		a[k] = bz
	}
	return BEvent{Ev: ev, A: a}
}

// tail continues a behaviour with ordinary events (logged and validated like any other):
//  1. epoch-closing blocks until every dogfood queue and pending list is empty, i.e. whatever the
//     behaviour registered last (opt-out, pruning of a replaced key, undelegation hold) has fired;
//  2. a change of the power of EVERY operator (one whole power unit delegated to each);
//  3. two more epoch-closing blocks: the first recomputes the USD values, the second hands the new
//     powers to the consensus engine.
//
// So a registry entry that was pruned wrongly shows up in the validator updates as well (C06).
func (d *stakingDriver) tail(tw *TraceWriter) {
	app := d.w.App
	pending := func() bool {
		return len(app.StakingKeeper.GetAllOptOutsToFinish(d.ctx)) > 0 || len(app.StakingKeeper.GetAllConsAddrsToPrune(d.ctx)) > 0 ||
			len(app.StakingKeeper.GetAllUndelegationsToMature(d.ctx)) > 0 || len(app.StakingKeeper.GetPendingOptOuts(d.ctx).List) > 0 ||
			len(app.StakingKeeper.GetPendingConsensusAddrs(d.ctx).List) > 0 || len(app.StakingKeeper.GetPendingUndelegations(d.ctx).List) > 0
	}
	for i := 0; i < 6 && !d.halted; i++ {
		d.block(stkEvent("Block", map[string]interface{}{"adv": 1}), tw)
		if !pending() {
			break
		}
	}
	unit := new(big.Int).Set(pow10(int(d.sc.Deci)))
	for _, o := range d.ops {
		if d.halted {
			return
		}
		d.exec(stkEvent("Delegate", map[string]interface{}{"o": o, "x": unit.String()}), tw)
	}
	for i := 0; i < 2 && !d.halted; i++ {
		d.block(stkEvent("Block", map[string]interface{}{"adv": 1}), tw)
	}
}

func (d *stakingDriver) block(e BEvent, tw *TraceWriter) {
	app := d.w.App
	adv := e.i64("adv")
	// ---- EndBlock of the current block
	panicked := ""
	var rsp abci.ResponseEndBlock
	func() {
		defer func() {
			if r := recover(); r != nil {
				panicked = fmt.Sprint(r)
			}
		}()
		rsp = app.EndBlocker(d.ctx, abci.RequestEndBlock{Height: d.ctx.BlockHeight()})
	}()
	d.lastRsp = d.updList(rsp.ValidatorUpdates)
	d.cmtOk, d.cmtErr = true, ""
	if panicked == "" && len(rsp.ValidatorUpdates) > 0 {
		ch, err := tmtypes.PB2TM.ValidatorUpdates(rsp.ValidatorUpdates)
		if err == nil {
			cp := d.cmt.Copy()
			err = cp.UpdateWithChangeSet(ch)
			if err == nil {
				d.cmt = cp
			}
		}
		if err != nil {
			d.cmtOk, d.cmtErr = false, err.Error()
		}
	}
	d.emit(tw, "EndBlock", map[string]interface{}{}, nil, panicked)
	rejected := !d.cmtOk
	d.lastRsp = nil
	d.cmtOk, d.cmtErr = true, ""
	if panicked != "" || rejected {
		// a panic in EndBlock, or an update list CometBFT refuses, halts the chain
		d.halted = true
		return
	}
	// ---- BeginBlock of the next block
	d.adv += adv
	hdr := d.ctx.BlockHeader()
	hdr.Height++
	hdr.Time = d.w.GenesisTime.Add(time.Duration(d.adv)*stkEpochDur + time.Duration(hdr.Height)*time.Second)
	d.ctx = d.ctx.WithBlockHeader(hdr).WithEventManager(sdk.NewEventManager())
	func() {
		defer func() {
			if r := recover(); r != nil {
				panicked = fmt.Sprint(r)
			}
		}()
		app.BeginBlocker(d.ctx, abci.RequestBeginBlock{Header: hdr})
	}()
	d.emit(tw, "BeginBlock", map[string]interface{}{"adv": adv}, nil, panicked)
	if panicked != "" {
		d.halted = true
	}
}

func (d *stakingDriver) call(ctx sdk.Context, e BEvent, args map[string]interface{}) error {
	w := d.w
	app := w.App
	opSrv := operatorkeeper.NewMsgServerImpl(app.OperatorKeeper)
	switch e.Ev {
	case "OptIn":
		o, k := e.str("o"), e.str("k")
		args["o"], args["k"] = o, k
		_, err := opSrv.OptIntoAVS(sdk.WrapSDKContext(ctx), &operatortypes.OptIntoAVSReq{FromAddress: d.opAddr[o].String(), AvsAddress: w.AvsAddr, PublicKeyJSON: d.wrapped[k].ToJSON()})
		return err
	case "OptOut":
		o := e.str("o")
		args["o"] = o
		_, err := opSrv.OptOutOfAVS(sdk.WrapSDKContext(ctx), &operatortypes.OptOutOfAVSReq{FromAddress: d.opAddr[o].String(), AvsAddress: w.AvsAddr})
		return err
	case "SetKey":
		o, k := e.str("o"), e.str("k")
		args["o"], args["k"] = o, k
		_, err := opSrv.SetConsKey(sdk.WrapSDKContext(ctx), &operatortypes.SetConsKeyReq{Address: d.opAddr[o].String(), AvsAddress: w.AvsAddr, PublicKeyJSON: d.wrapped[k].ToJSON()})
		return err
	case "Delegate":
		o := e.str("o")
		x := d.amt(e, "x")
		args["o"], args["x"] = o, NI(x)
		st := w.StAddrs[0].Bytes()
		aaddr := w.AssetAddr["lst"].Bytes()
		if err := app.AssetsKeeper.PerformDepositOrWithdraw(ctx, &assetskeeper.DepositWithdrawParams{ClientChainLzID: LzID, Action: assetstypes.DepositLST, AssetsAddress: aaddr, StakerAddress: st, OpAmount: x}); err != nil {
			return err
		}
		return app.DelegationKeeper.DelegateTo(ctx, &delegationtypes.DelegationOrUndelegationParams{ClientChainID: LzID, Action: assetstypes.DelegateTo, AssetsAddress: aaddr, OperatorAddress: d.opAddr[o], StakerAddress: st, OpAmount: x})
	case "Undelegate":
		s, o := e.str("s"), e.str("o")
		x := d.amt(e, "x")
		d.nrec++
		id := d.nrec
		args["s"], args["o"], args["x"], args["id"] = s, o, NI(x), id
		st := w.StAddrs[0].Bytes()
		if s == "v" {
			st = common.BytesToAddress(d.opAddr[o].Bytes()).Bytes()
		}
		path := e.str("path")
		if path == "" {
			path = "keeper"
		}
		args["path"] = path
		txh := common.BytesToHash(h256(fmt.Sprintf("stk-txh:%d", id)))
		key := delegationtypes.GetUndelegationRecordKey(uint64(ctx.BlockHeight()), uint64(id), txh.String(), d.opAddr[o].String())
		d.recID[string(key)] = id
		if path == "pc" {
			// the way a client-chain staker's undelegation really arrives: the gateway contract
			// calls the delegation precompile (which holds its own copy of the delegation keeper)
			// the EVM needs a coinbase: the block proposer must resolve to an operator. on a live chain
			// the proposer is a member of the engine's validator set; pick one that resolves
			hdr := ctx.BlockHeader()
			for _, v := range app.StakingKeeper.GetAllExocoreValidators(ctx) {
				if app.StakingKeeper.ValidatorByConsAddr(ctx, sdk.ConsAddress(v.Address)) != nil {
					hdr.ProposerAddress = v.Address
					break
				}
			}
			ctx = ctx.WithBlockHeader(hdr)
			ok, err := RunPrecompile(w, ctx, DelegationPrecompileAddr, gatewayAddr, txh, "undelegate", uint32(LzID), uint64(id),
				leftAligned32(w.AssetAddr["lst"].Bytes()), leftAligned32(st), []byte(d.opAddr[o].String()), x.BigInt())
			if err != nil {
				return err
			}
			if !ok {
				return fmt.Errorf("precompile returned false")
			}
			return nil
		}
		p := &delegationtypes.DelegationOrUndelegationParams{ClientChainID: LzID, Action: assetstypes.UndelegateFrom, AssetsAddress: w.AssetAddr["lst"].Bytes(), OperatorAddress: d.opAddr[o], StakerAddress: st, OpAmount: x,
			LzNonce: uint64(id), TxHash: txh}
		return app.DelegationKeeper.UndelegateFrom(ctx, p)
	case "Jail", "Unjail":
		k := e.str("k")
		args["k"] = k
		if e.Ev == "Jail" {
			app.StakingKeeper.Jail(ctx, d.wrapped[k].ToConsAddr())
		} else {
			app.StakingKeeper.Unjail(ctx, d.wrapped[k].ToConsAddr())
		}
		return nil
	case "UpdateParams":
		mv, n := e.i64("maxVals"), e.i64("n")
		args["maxVals"], args["n"] = mv, n
		p := app.StakingKeeper.GetDogfoodParams(ctx)
		p.MaxValidators = uint32(mv)
		p.EpochsUntilUnbonded = uint32(n)
		_, err := dogfoodkeeper.NewMsgServerImpl(app.StakingKeeper).UpdateParams(sdk.WrapSDKContext(ctx), &dogfoodtypes.MsgUpdateParams{Authority: authtypes.NewModuleAddress(govtypes.ModuleName).String(), Params: p})
		return err
	}
	return fmt.Errorf("unknown event %s", e.Ev)
}

// ---------------------------------------------------------------------------------------------
// projection

func (d *stakingDriver) keyOfProto(bz []byte) string {
	var pk tmprotocrypto.PublicKey
	if err := pk.Unmarshal(bz); err != nil {
		return "?" + hexOf(bz)
	}
	if m, ok := d.keyByPub[hexOf(pk.GetEd25519())]; ok {
		return m
	}
	return "?" + hexOf(pk.GetEd25519())
}

func (d *stakingDriver) keyOfCons(addr []byte) string {
	if m, ok := d.keyByCons[hexOf(addr)]; ok {
		return m
	}
	return "?" + hexOf(addr)
}

func (d *stakingDriver) opOfBytes(addr []byte) string {
	if m, ok := d.opModel[sdk.AccAddress(addr).String()]; ok {
		return m
	}
	return "?" + hexOf(addr)
}

func (d *stakingDriver) recOf(key []byte) interface{} {
	if id, ok := d.recID[string(key)]; ok {
		return id
	}
	return -1
}

func (d *stakingDriver) updList(us []abci.ValidatorUpdate) []map[string]interface{} {
	out := []map[string]interface{}{}
	for _, u := range us {
		k := "?"
		if m, ok := d.keyByPub[hexOf(u.PubKey.GetEd25519())]; ok {
			k = m
		}
		out = append(out, map[string]interface{}{"k": k, "p": N64(u.Power)})
	}
	return out
}

func scan(ctx sdk.Context, key storetypes.StoreKey, pfx []byte, f func(k, v []byte)) {
	it := sdk.KVStorePrefixIterator(ctx.KVStore(key), pfx)
	defer it.Close()
	for ; it.Valid(); it.Next() {
		f(append([]byte{}, it.Key()[len(pfx):]...), append([]byte{}, it.Value()...))
	}
}

func (d *stakingDriver) project(ev string) map[string]interface{} {
	w, ctx := d.w, d.ctx
	app := w.App
	chain := w.ChainIDNoRev
	clen := 8 + len(chain)
	st := map[string]interface{}{"h": ctx.BlockHeight(), "nrec": d.nrec}
	ei, _ := app.EpochsKeeper.GetEpochInfo(ctx, d.sc.EpochID)
	st["epoch"] = ei.CurrentEpoch
	// whole epochs the clock is behind the block time (>= 1 at BeginBlock means: the epoch ends)
	st["lag"] = int64(ctx.BlockTime().Sub(ei.CurrentEpochStartTime) / stkEpochDur)
	st["flag"] = app.StakingKeeper.IsEpochEnd(ctx)
	dp := app.StakingKeeper.GetDogfoodParams(ctx)
	st["N"] = dp.EpochsUntilUnbonded
	st["maxV"] = dp.MaxValidators

	// ---- x/operator key registry, raw by prefix
	okey := app.GetKey(operatortypes.StoreKey)
	fwd1, fwd2, prev, rev := map[string]string{}, map[string]string{}, map[string]string{}, map[string]string{}
	removing := []string{}
	scan(ctx, okey, []byte{operatortypes.BytePrefixForOperatorAndChainIDToConsKey}, func(k, v []byte) { fwd1[d.opOfBytes(k[:20])] = d.keyOfProto(v) })
	scan(ctx, okey, []byte{operatortypes.BytePrefixForChainIDAndOperatorToConsKey}, func(k, v []byte) { fwd2[d.opOfBytes(k[clen:])] = d.keyOfProto(v) })
	scan(ctx, okey, []byte{operatortypes.BytePrefixForOperatorAndChainIDToPrevConsKey}, func(k, v []byte) { prev[d.opOfBytes(k[clen:])] = d.keyOfProto(v) })
	scan(ctx, okey, []byte{operatortypes.BytePrefixForChainIDAndConsKeyToOperator}, func(k, v []byte) { rev[d.keyOfCons(k[clen:])] = d.opOfBytes(v) })
	scan(ctx, okey, []byte{operatortypes.BytePrefixForOperatorKeyRemovalForChainID}, func(k, v []byte) { removing = append(removing, d.opOfBytes(k[:20])) })
	st["fwd1"], st["fwd2"], st["prev"], st["rev"], st["removing"] = fwd1, fwd2, prev, rev, removing
	removingQ := []string{}
	info, opted, jailed := map[string]bool{}, map[string]bool{}, map[string]bool{}
	hasUsd := map[string]bool{}
	usd := map[string]Num{}
	stake := map[string]Num{}
	for _, o := range d.ops {
		a := d.opAddr[o]
		if app.OperatorKeeper.IsOperatorRemovingKeyFromChainID(ctx, a, chain) {
			removingQ = append(removingQ, o)
		}
		oi, err := app.OperatorKeeper.GetOptedInfo(ctx, a.String(), w.AvsAddr)
		info[o] = err == nil
		opted[o] = app.OperatorKeeper.IsOptedIn(ctx, a.String(), w.AvsAddr)
		jailed[o] = err == nil && oi.Jailed
		uv, err := app.OperatorKeeper.GetOperatorOptedUSDValue(ctx, w.AvsAddr, a.String())
		hasUsd[o] = false
		usd[o] = N64(0)
		if err == nil && opted[o] {
			hasUsd[o] = true
			usd[o] = ND(uv.ActiveUSDValue)
		}
		stake[o] = N64(0)
		if ai, err := app.AssetsKeeper.GetOperatorSpecifiedAssetInfo(ctx, a, w.AssetID["lst"]); err == nil {
			stake[o] = NI(ai.TotalAmount)
		}
	}
	st["removingQ"], st["info"], st["opted"], st["jailed"], st["hasUsd"], st["usd"], st["stake"] = removingQ, info, opted, jailed, hasUsd, usd, stake
	// delegations: "s|o" -> amount (1:1 shares, no slashing in this family)
	del := map[string]Num{}
	dss, _ := app.DelegationKeeper.AllDelegationStates(ctx)
	for _, ds := range dss {
		ks, _ := assetstypes.ParseJoinedStoreKey([]byte(ds.Key), 3)
		s := "v"
		if ks[0] == w.StakerID["s1"] {
			s = "s1"
		}
		del[s+"|"+d.opModel[ks[2]]] = NI(ds.States.UndelegatableShare.TruncateInt())
	}
	st["del"] = del

	// ---- dogfood
	vals := map[string]Num{}
	for _, v := range app.StakingKeeper.GetAllExocoreValidators(ctx) {
		vals[d.keyOfCons(v.Address)] = N64(v.Power)
	}
	st["vals"] = vals
	st["lastTotal"] = NI(app.StakingKeeper.GetLastTotalPower(ctx))
	st["updates"] = d.updList(app.StakingKeeper.GetValidatorUpdates(ctx))
	rsp := d.lastRsp
	if rsp == nil {
		rsp = []map[string]interface{}{}
	}
	st["rsp"] = rsp
	cset := map[string]Num{}
	for _, v := range d.cmt.Validators {
		k := "?"
		if m, ok := d.keyByPub[hexOf(v.PubKey.Bytes())]; ok {
			k = m
		}
		cset[k] = N64(v.VotingPower)
	}
	st["cmt"] = map[string]interface{}{"ok": d.cmtOk, "err": d.cmtErr, "set": cset}

	dkey := app.GetKey(dogfoodtypes.StoreKey)
	epochOf := func(k []byte) int64 { return int64(binary.BigEndian.Uint64(k[:8])) }
	qOpt, qPrune, qUndel := []map[string]interface{}{}, []map[string]interface{}{}, []map[string]interface{}{}
	scan(ctx, dkey, []byte{dogfoodtypes.OptOutsToFinishBytePrefix}, func(k, v []byte) {
		var l dogfoodtypes.AccountAddresses
		must(l.Unmarshal(v))
		xs := []string{}
		for _, a := range l.List {
			xs = append(xs, d.opOfBytes(a))
		}
		qOpt = append(qOpt, map[string]interface{}{"e": epochOf(k), "xs": xs})
	})
	scan(ctx, dkey, []byte{dogfoodtypes.ConsensusAddrsToPruneBytePrefix}, func(k, v []byte) {
		var l dogfoodtypes.ConsensusAddresses
		must(l.Unmarshal(v))
		xs := []string{}
		for _, a := range l.List {
			xs = append(xs, d.keyOfCons(a))
		}
		qPrune = append(qPrune, map[string]interface{}{"e": epochOf(k), "xs": xs})
	})
	scan(ctx, dkey, []byte{dogfoodtypes.UnbondingReleaseMaturityBytePrefix}, func(k, v []byte) {
		var l dogfoodtypes.UndelegationRecordKeys
		must(l.Unmarshal(v))
		xs := []interface{}{}
		for _, a := range l.List {
			xs = append(xs, d.recOf(a))
		}
		qUndel = append(qUndel, map[string]interface{}{"e": epochOf(k), "xs": xs})
	})
	st["qOpt"], st["qPrune"], st["qUndel"] = qOpt, qPrune, qUndel
	// the keeper's own "GetAll..." getters (used by genesis export); lead L12
	st["getters"] = map[string]interface{}{
		"opt":   len(app.StakingKeeper.GetAllOptOutsToFinish(ctx)),
		"prune": len(app.StakingKeeper.GetAllConsAddrsToPrune(ctx)),
		"undel": len(app.StakingKeeper.GetAllUndelegationsToMature(ctx)),
	}
	pOpt, pPrune, pUndel := []string{}, []string{}, []interface{}{}
	for _, a := range app.StakingKeeper.GetPendingOptOuts(ctx).List {
		pOpt = append(pOpt, d.opOfBytes(a))
	}
	for _, a := range app.StakingKeeper.GetPendingConsensusAddrs(ctx).List {
		pPrune = append(pPrune, d.keyOfCons(a))
	}
	for _, a := range app.StakingKeeper.GetPendingUndelegations(ctx).List {
		pUndel = append(pUndel, d.recOf(a))
	}
	st["pOpt"], st["pPrune"], st["pUndel"] = pOpt, pPrune, pUndel
	finish := map[string]int64{}
	scan(ctx, dkey, []byte{dogfoodtypes.OperatorOptOutFinishEpochBytePrefix}, func(k, v []byte) { finish[d.opOfBytes(k)] = int64(binary.BigEndian.Uint64(v)) })
	st["finish"] = finish
	mat := []map[string]interface{}{}
	scan(ctx, dkey, []byte{dogfoodtypes.UndelegationMaturityEpochByte}, func(k, v []byte) {
		mat = append(mat, map[string]interface{}{"id": d.recOf(k), "e": int64(binary.BigEndian.Uint64(v))})
	})
	st["mat"] = mat

	// ---- undelegation records and their hold counts (as seen by the delegation keeper)
	recs := []map[string]interface{}{}
	rs, _ := app.DelegationKeeper.AllUndelegations(ctx)
	for _, r := range rs {
		key := delegationtypes.GetUndelegationRecordKey(r.BlockNumber, r.LzTxNonce, r.TxHash, r.OperatorAddr)
		s := "v"
		if r.StakerID == w.StakerID["s1"] {
			s = "s1"
		}
		recs = append(recs, map[string]interface{}{"id": d.recOf(key), "s": s, "o": d.opModel[r.OperatorAddr], "amt": NI(r.Amount), "start": r.BlockNumber, "complete": r.CompleteBlockNumber,
			"hold": app.DelegationKeeper.GetUndelegationHoldCount(ctx, key)})
	}
	st["recs"] = recs
	hold := []map[string]interface{}{}
	scan(ctx, app.GetKey(delegationtypes.StoreKey), []byte{6}, func(k, v []byte) { // prefixUndelegationOnHold
		hold = append(hold, map[string]interface{}{"id": d.recOf(k), "n": binary.BigEndian.Uint64(v)})
	})
	st["hold"] = hold

	// ---- slashing-side resolution of every key (dogfood's StakingKeeper interface)
	vbc := map[string]string{}
	jk := map[string]bool{}
	for _, k := range d.keys {
		ca := d.wrapped[k].ToConsAddr()
		v := app.StakingKeeper.ValidatorByConsAddr(ctx, ca)
		vbc[k] = ""
		if v != nil {
			vbc[k] = d.opOfBytes(v.GetOperator())
		}
		jk[k] = app.StakingKeeper.IsValidatorJailed(ctx, ca)
	}
	st["vbc"], st["jailedK"] = vbc, jk
	return st
}
