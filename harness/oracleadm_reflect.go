// Generic, read-only deep dump of arbitrary in-memory Go structures through reflection (family oracleadm).
//
//   struct   -> map field name -> dump (unexported fields included)
//   map      -> map rendered key -> dump (keys: strings as they are, numbers in decimal, struct keys as their field
//               values joined by "|"); encoding/json sorts the keys, so the dump is canonical
//   slice    -> list in order ([]byte as hex); array likewise
//   pointer / interface -> followed; nil -> null; a pointer met again on the current path -> "<cycle>"
//   *big.Int (hence sdk.Int / Dec, which wrap one) -> decimal string
//
// Nothing here names a type or a field of the dumped packages: the projection looks pieces up BY NAME in the
// result and falls back to "absent", so a renamed or re-typed internal shows up as strict-lane drift, never as
// a build failure or a panic.
package main

import (
	"encoding/hex"
	"fmt"
	"math/big"
	"reflect"
	"sort"
	"strconv"
	"strings"
)

var bigIntPtrType = reflect.TypeOf((*big.Int)(nil))

func deepDump(x interface{}) (out interface{}) {
	defer func() {
		if r := recover(); r != nil {
			out = fmt.Sprint("<dump failed: ", r, ">")
		}
	}()
	return dumpValue(reflect.ValueOf(x), map[uintptr]bool{}, 0)
}

func dumpKey(k reflect.Value) string {
	switch k.Kind() {
	case reflect.String:
		return k.String()
	case reflect.Int, reflect.Int8, reflect.Int16, reflect.Int32, reflect.Int64:
		return strconv.FormatInt(k.Int(), 10)
	case reflect.Uint, reflect.Uint8, reflect.Uint16, reflect.Uint32, reflect.Uint64, reflect.Uintptr:
		return strconv.FormatUint(k.Uint(), 10)
	case reflect.Bool:
		return strconv.FormatBool(k.Bool())
	case reflect.Struct:
		parts := make([]string, 0, k.NumField())
		for i := 0; i < k.NumField(); i++ {
			parts = append(parts, dumpKey(k.Field(i)))
		}
		return strings.Join(parts, "|")
	case reflect.Array:
		parts := make([]string, 0, k.Len())
		for i := 0; i < k.Len(); i++ {
			parts = append(parts, dumpKey(k.Index(i)))
		}
		return strings.Join(parts, ",")
	case reflect.Ptr, reflect.Interface:
		if k.IsNil() {
			return "<nil>"
		}
		return dumpKey(k.Elem())
	}
	return fmt.Sprintf("<%s>", k.Kind())
}

func dumpValue(v reflect.Value, path map[uintptr]bool, depth int) interface{} {
	if !v.IsValid() {
		return nil
	}
	if depth > 40 {
		return "<too deep>"
	}
	switch v.Kind() {
	case reflect.Bool:
		return v.Bool()
	case reflect.Int, reflect.Int8, reflect.Int16, reflect.Int32, reflect.Int64:
		return v.Int()
	case reflect.Uint, reflect.Uint8, reflect.Uint16, reflect.Uint32, reflect.Uint64, reflect.Uintptr:
		return v.Uint()
	case reflect.Float32, reflect.Float64:
		return v.Float()
	case reflect.String:
		return v.String()
	case reflect.Ptr:
		if v.IsNil() {
			return nil
		}
		if v.Type() == bigIntPtrType {
			return new(big.Int).Set((*big.Int)(v.UnsafePointer())).String()
		}
		p := v.Pointer()
		if path[p] {
			return "<cycle>"
		}
		path[p] = true
		defer delete(path, p)
		return dumpValue(v.Elem(), path, depth+1)
	case reflect.Interface:
		if v.IsNil() {
			return nil
		}
		return dumpValue(v.Elem(), path, depth+1)
	case reflect.Struct:
		out := map[string]interface{}{}
		t := v.Type()
		for i := 0; i < v.NumField(); i++ {
			out[t.Field(i).Name] = dumpValue(v.Field(i), path, depth+1)
		}
		return out
	case reflect.Map:
		if v.IsNil() {
			return nil
		}
		out := map[string]interface{}{}
		it := v.MapRange()
		for it.Next() {
			out[dumpKey(it.Key())] = dumpValue(it.Value(), path, depth+1)
		}
		return out
	case reflect.Slice:
		if v.IsNil() {
			return nil
		}
		if v.Type().Elem().Kind() == reflect.Uint8 {
			b := make([]byte, v.Len())
			for i := range b {
				b[i] = byte(v.Index(i).Uint())
			}
			return hex.EncodeToString(b)
		}
		fallthrough
	case reflect.Array:
		out := make([]interface{}, 0, v.Len())
		for i := 0; i < v.Len(); i++ {
			out = append(out, dumpValue(v.Index(i), path, depth+1))
		}
		return out
	case reflect.Func, reflect.Chan, reflect.UnsafePointer:
		return "<" + v.Kind().String() + ">"
	}
	return "<" + v.Kind().String() + ">"
}

// ---- tolerant look-ups in a dump (every miss yields the zero value)

func dmap(x interface{}) map[string]interface{} {
	m, _ := x.(map[string]interface{})
	return m
}

// dfield finds a field by one of several names (first hit), case-insensitively as a last resort
func dfield(x interface{}, names ...string) interface{} {
	m := dmap(x)
	if m == nil {
		return nil
	}
	for _, n := range names {
		if v, ok := m[n]; ok {
			return v
		}
	}
	for _, n := range names {
		for k, v := range m {
			if strings.EqualFold(k, n) {
				return v
			}
		}
	}
	return nil
}

func dlist(x interface{}) []interface{} {
	switch l := x.(type) {
	case []interface{}:
		return l
	case map[string]interface{}:
		// a set-like struct (capacity + backing slice): take its only list-valued field
		for _, v := range l {
			if ll, ok := v.([]interface{}); ok {
				return ll
			}
		}
	}
	return nil
}

func dint(x interface{}) (int, bool) {
	switch n := x.(type) {
	case int64:
		return int(n), true
	case uint64:
		return int(n), true
	case float64:
		return int(n), true
	case string:
		i, err := strconv.Atoi(n)
		return i, err == nil
	}
	return 0, false
}

func dstr(x interface{}) string {
	s, _ := x.(string)
	return s
}

// dropFields removes (in place) every struct field / map entry whose name contains the fragment, case-insensitively
func dropFields(x interface{}, fragment string) {
	switch t := x.(type) {
	case map[string]interface{}:
		for k, v := range t {
			if strings.Contains(strings.ToLower(k), fragment) {
				delete(t, k)
			} else {
				dropFields(v, fragment)
			}
		}
	case []interface{}:
		for _, v := range t {
			dropFields(v, fragment)
		}
	}
}

// isIntSet: a list of numbers, or a set-like struct (numbers plus at least one list of numbers)
func isIntSet(x interface{}) bool {
	isNum := func(y interface{}) bool {
		switch y.(type) {
		case int64, uint64, float64:
			return true
		}
		return false
	}
	numList := func(y interface{}) bool {
		l, ok := y.([]interface{})
		if !ok {
			return false
		}
		for _, e := range l {
			if !isNum(e) {
				return false
			}
		}
		return true
	}
	if numList(x) {
		return true
	}
	m, ok := x.(map[string]interface{})
	if !ok {
		return false
	}
	lists := 0
	for _, v := range m {
		switch {
		case numList(v):
			lists++
		case isNum(v):
		default:
			return false
		}
	}
	return lists > 0
}

// blankIntSetMaps empties (in place) every non-empty map all of whose values are integer sets: whatever the
// per-validator nonce bookkeeping is called, it is recognised by its shape as well
func blankIntSetMaps(x interface{}) {
	switch t := x.(type) {
	case map[string]interface{}:
		for k, v := range t {
			if m, ok := v.(map[string]interface{}); ok && len(m) > 0 {
				all := true
				for _, e := range m {
					if !isIntSet(e) {
						all = false
						break
					}
				}
				if all {
					t[k] = map[string]interface{}{}
					continue
				}
			}
			blankIntSetMaps(v)
		}
	case []interface{}:
		for _, v := range t {
			blankIntSetMaps(v)
		}
	}
}

func admSortedKeys(m map[string]interface{}) []string {
	ks := make([]string, 0, len(m))
	for k := range m {
		ks = append(ks, k)
	}
	sort.Strings(ks)
	return ks
}
