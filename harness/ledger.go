// Ledger family driver (ctx-mode): executes TLC-generated behaviours of MC_Ledger against the
// real keepers of a full ExocoreApp and records, after every event, the complete ledger
// projection (spec/Ledger.tla store) for trace validation by spec/Trace_Ledger.tla.
package main

import (
	"bufio"
	"crypto/sha256"
	"encoding/binary"
	"encoding/json"
	"flag"
	"fmt"
	"math/big"
	"math/rand"
	"os"
	"sort"
	"strings"

	sdkmath "cosmossdk.io/math"
	abci "github.com/cometbft/cometbft/abci/types"
	"github.com/cosmos/cosmos-sdk/store/prefix"
	sdk "github.com/cosmos/cosmos-sdk/types"
	"github.com/ethereum/go-ethereum/common"
	"github.com/ethereum/go-ethereum/common/hexutil"

	"github.com/ExocoreNetwork/exocore/utils"
	assetskeeper "github.com/ExocoreNetwork/exocore/x/assets/keeper"
	assetstypes "github.com/ExocoreNetwork/exocore/x/assets/types"
	delegationtypes "github.com/ExocoreNetwork/exocore/x/delegation/types"
	operatortypes "github.com/ExocoreNetwork/exocore/x/operator/types"
)

type BEvent struct {
	Ev string                     `json:"ev"`
	A  map[string]json.RawMessage `json:"a"`
}

func (e BEvent) str(k string) string {
	var s string
	if raw, ok := e.A[k]; ok {
		json.Unmarshal(raw, &s)
	}
	return s
}
func (e BEvent) big(k string) *big.Int {
	raw, ok := e.A[k]
	if !ok {
		return big.NewInt(0)
	}
	b, err := ParseNum(raw)
	must(err)
	return b
}

// ReadBehaviours reads one JSON array of events per line.
func ReadBehaviours(path string) [][]BEvent {
	f, err := os.Open(path)
	must(err)
	defer f.Close()
	var out [][]BEvent
	sc := bufio.NewScanner(f)
	sc.Buffer(make([]byte, 1<<20), 1<<26)
	for sc.Scan() {
		line := strings.TrimSpace(sc.Text())
		if line == "" {
			continue
		}
		var b []BEvent
		must(json.Unmarshal([]byte(line), &b))
		out = append(out, b)
	}
	return out
}

type LedgerCfg struct {
	Stakers    int      `json:"stakers"`
	Operators  int      `json:"operators"`
	Assets     []string `json:"assets"`   // model ids; kinds by name prefix: lst*, nst, nat
	HoldOps    []string `json:"holdops"`  // operators that are validators (hold placed by dogfood)
	Scales     []string `json:"scales"`   // amount multipliers, one picked per behaviour by the seed
	BlocksPer  int      `json:"blocksPer"` // real EndBlocks per model EndBlock
	// block heights at which a behaviour may start (one picked per behaviour by the seed; default 1):
	// store keys embed heights as unpadded hex, so behaviours are also run across digit-count
	// boundaries (14 -> 0xe..0x18, 254 -> 0xfe..0x108, 4094 -> 0xffe..0x1008)
	BaseHeights []int64 `json:"baseHeights"`
	ModelPrec  int64    `json:"modelPrec"` // PREC of the generating model (slash factor unit)
	NatFunds   string   `json:"natFunds"`  // model units of native balance per staker (scaled)
	Path       string   `json:"path"`      // "" / "keeper": keeper entry points; "precompile": assets/delegation precompile Run as the gateway
}

func kindOf(a string) string {
	switch {
	case a == "nat":
		return "nat"
	case strings.HasPrefix(a, "nst"):
		return "nst"
	}
	return "lst"
}

var prec18 = new(big.Int).Exp(big.NewInt(10), big.NewInt(18), nil)

func runLedger(args []string) int {
	fs := flag.NewFlagSet("ledger", flag.ExitOnError)
	in := fs.String("in", "", "behaviours (ndjson of event arrays)")
	out := fs.String("out", "", "trace output (ndjson)")
	seed := fs.Int64("seed", 1, "seed")
	cfgS := fs.String("cfg", "", "LedgerCfg JSON")
	fs.Parse(args)
	var lc LedgerCfg
	must(json.Unmarshal([]byte(*cfgS), &lc))
	if lc.BlocksPer == 0 {
		lc.BlocksPer = 1
	}
	rng := rand.New(rand.NewSource(*seed))

	gc := DefaultGenCfg()
	gc.NOperators = lc.Operators
	gc.NStakers = lc.Stakers
	gc.Assets = nil
	for _, a := range lc.Assets {
		if a == "nat" {
			continue
		}
		gc.Assets = append(gc.Assets, AssetCfg{ID: a, Decimals: 0, Price: "1", PriceDec: 0, NST: kindOf(a) == "nst"})
	}
	gc.Validators = nil
	for _, o := range lc.HoldOps {
		var i int
		fmt.Sscanf(o, "o%d", &i)
		gc.Validators = append(gc.Validators, ValCfg{Op: i - 1, Power: 100})
	}
	w := NewWorld(gc)
	if lc.Path == "precompile" {
		// the gateway is the only caller the precompiles accept
		prm, _ := w.App.AssetsKeeper.GetParams(w.Ctx)
		prm.ExocoreLzAppAddress = gatewayAddr.String()
		must(w.App.AssetsKeeper.SetParams(w.Ctx, prm))
	}
	tw := NewTraceWriter(*out)
	defer tw.Close()

	behaviours := ReadBehaviours(*in)
	for bi, b := range behaviours {
		scale, _ := new(big.Int).SetString(lc.Scales[rng.Intn(len(lc.Scales))], 10)
		ctx, _ := w.Ctx.CacheContext()
		base := int64(1)
		if len(lc.BaseHeights) > 0 {
			base = lc.BaseHeights[rng.Intn(len(lc.BaseHeights))]
		}
		if base > 1 {
			ctx = ctx.WithBlockHeight(base)
		}
		ld := &ledgerDriver{w: w, lc: lc, scale: scale, ctx: ctx, base: base}
		ld.fundNative()
		tw.Emit(map[string]interface{}{"ev": "reset", "b": bi, "scale": NB(scale), "cfg": ld.cfgJSON(), "st": ld.project()})
		for _, e := range b {
			ld.exec(e, tw)
		}
	}
	fmt.Printf("ledger: behaviours=%d events=%d\n", len(behaviours), tw.n)
	return 0
}

func init() { commands["ledger"] = runLedger }

var gatewayAddr = common.BytesToAddress(h256("gateway")[:20])

type ledgerDriver struct {
	w     *World
	lc    LedgerCfg
	scale *big.Int
	base  int64 // real height of model height 1
	ctx   sdk.Context
}

func (d *ledgerDriver) cfgJSON() map[string]interface{} {
	var sord, oord, aord []string
	for m := range d.w.StakerID {
		sord = append(sord, m)
	}
	sort.Slice(sord, func(i, j int) bool { return d.w.StakerID[sord[i]] < d.w.StakerID[sord[j]] })
	for i := range d.w.OpAddrs {
		oord = append(oord, fmt.Sprintf("o%d", i+1))
	}
	aord = append(aord, d.lc.Assets...)
	sort.Slice(aord, func(i, j int) bool { return d.w.AssetID[aord[i]] < d.w.AssetID[aord[j]] })
	kind := map[string]string{}
	deci := map[string]int{}
	price := map[string]int{}
	pdec := map[string]int{}
	var reg []string
	for _, a := range aord {
		kind[a] = kindOf(a)
		deci[a] = 0
		price[a] = 1
		pdec[a] = 0
		if a != "nat" {
			reg = append(reg, a)
		}
	}
	if reg == nil {
		reg = []string{}
	}
	hold := d.lc.HoldOps
	if hold == nil {
		hold = []string{}
	}
	return map[string]interface{}{"sord": sord, "oord": oord, "aord": aord, "kind": kind, "deci": deci, "price": price, "pdec": pdec,
		"registered": reg, "holdops": hold, "unbond": operatortypes.UnbondingExpiration, "hooked": true, "path": d.lc.Path}
}

// give every staker account a known native balance (model units * scale)
func (d *ledgerDriver) fundNative() {
	// genesis gives every account a large native balance; when the world asks for model-sized
	// balances (natFunds model units), move the excess to a sink so that "insufficient funds" is reachable
	if d.lc.NatFunds == "" {
		return
	}
	units, ok := new(big.Int).SetString(d.lc.NatFunds, 10)
	if !ok {
		return
	}
	target := sdkmath.NewIntFromBigInt(new(big.Int).Mul(units, d.scale))
	sink := sdk.AccAddress(h256("native-sink")[:20])
	for _, a := range d.w.StAddrs {
		acc := sdk.AccAddress(a.Bytes())
		bal := d.w.App.BankKeeper.GetBalance(d.ctx, acc, utils.BaseDenom).Amount
		if bal.GT(target) {
			must(d.w.App.BankKeeper.SendCoins(d.ctx, acc, sink, sdk.NewCoins(sdk.NewCoin(utils.BaseDenom, bal.Sub(target)))))
		}
	}
}

func (d *ledgerDriver) amt(e BEvent, k string) sdkmath.Int {
	return sdkmath.NewIntFromBigInt(new(big.Int).Mul(e.big(k), d.scale))
}

func (d *ledgerDriver) stakerAddr(model string, asset string) []byte {
	if strings.HasPrefix(model, "v") {
		var i int
		fmt.Sscanf(model, "v%d", &i)
		return common.BytesToAddress(d.w.OpAddrs[i-1].Bytes()).Bytes()
	}
	return d.w.St(model).Bytes()
}

func (d *ledgerDriver) chainAndAsset(asset string) (uint64, []byte) {
	if asset == "nat" {
		return assetstypes.ExocoreChainLzID, common.HexToAddress(assetstypes.ExocoreAssetAddr).Bytes()
	}
	return LzID, d.w.AssetAddr[asset].Bytes()
}

func txHashOf(t string) common.Hash { return common.BytesToHash(h256("txh:" + t)) }

func (d *ledgerDriver) exec(e BEvent, tw *TraceWriter) {
	reps := 1
	if e.Ev == "EndBlock" {
		reps = d.lc.BlocksPer
	}
	for i := 0; i < reps; i++ {
		args := map[string]interface{}{}
		var err error
		panicked := ""
		// a panic inside a transaction-like entry point aborts the whole transaction on a real chain
		// (baseapp recovers it and discards the branch): the event runs on a branch that is written back
		// unless it panicked. An entry point that merely returns an error gets NO rollback here - the
		// keeper's own atomicity is what C09 examines. A panic in EndBlock is a halt: nothing to discard.
		outer := d.ctx
		cc, write := outer.CacheContext()
		d.ctx = cc
		func() {
			defer func() {
				if r := recover(); r != nil {
					panicked = fmt.Sprint(r)
				}
			}()
			err = d.call(e, args)
		}()
		if panicked == "" || e.Ev == "EndBlock" {
			write()
		}
		d.ctx = outer.WithBlockHeader(d.ctx.BlockHeader()) // EndBlock advances the header on the branch
		ev := map[string]interface{}{"ev": e.Ev, "a": args, "ok": err == nil && panicked == "", "panic": panicked != "", "st": d.project()}
		if err != nil {
			ev["err"] = err.Error()
		}
		if panicked != "" {
			ev["err"] = "PANIC: " + panicked
		}
		tw.Emit(ev)
	}
}

// call executes one event on the real keepers; `args` receives the CONCRETE arguments (scaled
// amounts, real-precision decimals) that the trace spec replays through the model.
func (d *ledgerDriver) call(e BEvent, args map[string]interface{}) error {
	w, ctx := d.w, d.ctx
	k := w.App
	if d.lc.Path == "precompile" {
		if done, err := d.callPrecompile(e, args); done {
			return err
		}
	}
	switch e.Ev {
	case "Deposit", "Withdraw":
		s, a := e.str("s"), e.str("a")
		x := d.amt(e, "x")
		args["s"], args["a"], args["x"] = s, a, NI(x)
		lz, aaddr := d.chainAndAsset(a)
		act := assetstypes.DepositLST
		if e.Ev == "Withdraw" {
			act = assetstypes.WithdrawLST
		}
		if kindOf(a) == "nst" {
			act = assetstypes.DepositNST
			if e.Ev == "Withdraw" {
				act = assetstypes.WithdrawNST
			}
		}
		return k.AssetsKeeper.PerformDepositOrWithdraw(ctx, &assetskeeper.DepositWithdrawParams{ClientChainLzID: lz, Action: act, AssetsAddress: aaddr, StakerAddress: d.stakerAddr(s, a), OpAmount: x})
	case "Delegate", "Undelegate":
		s, a, o := e.str("s"), e.str("a"), e.str("o")
		x := d.amt(e, "x")
		args["s"], args["a"], args["o"], args["x"] = s, a, o, NI(x)
		lz, aaddr := d.chainAndAsset(a)
		p := &delegationtypes.DelegationOrUndelegationParams{ClientChainID: lz, AssetsAddress: aaddr, OperatorAddress: w.Op(o), StakerAddress: d.stakerAddr(s, a), OpAmount: x}
		if e.Ev == "Delegate" {
			p.Action = assetstypes.DelegateTo
			return k.DelegationKeeper.DelegateTo(ctx, p)
		}
		p.Action = assetstypes.UndelegateFrom
		p.LzNonce = e.big("nonce").Uint64()
		p.TxHash = txHashOf(e.str("txh"))
		args["nonce"], args["txh"] = p.LzNonce, e.str("txh")
		return k.DelegationKeeper.UndelegateFrom(ctx, p)
	case "MsgDelegate", "MsgUndelegate":
		// the native-token message path (x/delegation msg server): ValidateBasic, then the handler on a
		// context carrying the tx bytes; the signer's account sequence is the nonce of every entry
		s := e.str("s")
		var items []struct {
			O string          `json:"o"`
			X json.RawMessage `json:"x"`
		}
		must(json.Unmarshal(e.A["items"], &items))
		from := sdk.AccAddress(w.St(s).Bytes())
		var kvs []delegationtypes.KeyValue
		var outItems []map[string]interface{}
		for _, it := range items {
			xb, _ := ParseNum(it.X)
			amt := sdkmath.NewIntFromBigInt(new(big.Int).Mul(xb, d.scale))
			kvs = append(kvs, delegationtypes.KeyValue{Key: w.Op(it.O).String(), Value: &delegationtypes.ValueField{Amount: amt}})
			outItems = append(outItems, map[string]interface{}{"o": it.O, "x": NI(amt)})
		}
		args["s"], args["items"] = s, outItems
		if e.Ev == "MsgDelegate" {
			msg := delegationtypes.NewMsgDelegation(assetstypes.ExocoreAssetID, from.String(), kvs)
			if err := msg.ValidateBasic(); err != nil {
				return err
			}
			_, err := k.DelegationKeeper.DelegateAssetToOperator(sdk.WrapSDKContext(ctx.WithTxBytes([]byte("tx:del"))), msg)
			return err
		}
		nonce := e.big("nonce").Uint64()
		t := e.str("txh")
		args["nonce"], args["txh"] = nonce, t
		acc := k.AccountKeeper.GetAccount(ctx, from)
		must(acc.SetSequence(nonce))
		k.AccountKeeper.SetAccount(ctx, acc)
		txBytes := []byte("tx:" + t)
		txHashNames(txBytes, nonce, t)
		msg := delegationtypes.NewMsgUndelegation(assetstypes.ExocoreAssetID, from.String(), kvs)
		if err := msg.ValidateBasic(); err != nil {
			return err
		}
		_, err := k.DelegationKeeper.UndelegateAssetFromOperator(sdk.WrapSDKContext(ctx.WithTxBytes(txBytes)), msg)
		return err
	case "Associate":
		s, o := e.str("s"), e.str("o")
		args["s"], args["o"] = s, o
		return k.DelegationKeeper.AssociateOperatorWithStaker(ctx, LzID, w.Op(o), d.stakerAddr(s, ""))
	case "Dissociate":
		s := e.str("s")
		args["s"] = s
		return k.DelegationKeeper.DissociateOperatorFromStaker(ctx, LzID, d.stakerAddr(s, ""))
	case "Slash":
		o, id := e.str("o"), e.str("id")
		infr := e.big("infr").Int64()
		// the infraction-time power is in USD like the operator's value, which scales with the amounts
		pw := new(big.Int).Mul(e.big("power"), d.scale)
		if !pw.IsInt64() || pw.Int64() > (1<<62) {
			pw = big.NewInt(1 << 62)
		}
		power := pw.Int64()
		// factor arrives in units of the generating model's PREC
		f := new(big.Int).Mul(e.big("factor"), prec18)
		f.Quo(f, big.NewInt(d.lc.ModelPrec))
		factor := sdkmath.LegacyNewDecFromBigIntWithPrec(f, 18)
		// model heights map to real heights through blocksPer
		rinfr := (infr-1)*int64(d.lc.BlocksPer) + d.base
		if rinfr > ctx.BlockHeight() {
			rinfr = ctx.BlockHeight()
		}
		args["o"], args["id"], args["infr"], args["power"], args["factor"] = o, id, rinfr, N64(power), NB(f)
		return k.OperatorKeeper.Slash(ctx, &operatortypes.SlashInputInfo{IsDogFood: true, Power: power, SlashType: 1, Operator: w.Op(o), AVSAddr: w.AvsAddr, SlashID: id, SlashEventHeight: rinfr, SlashProportion: factor})
	case "NstUpdate":
		s, a := e.str("s"), e.str("a")
		dlt := sdkmath.NewIntFromBigInt(new(big.Int).Mul(e.big("d"), d.scale))
		args["s"], args["a"], args["d"] = s, a, NI(dlt)
		return k.DelegationKeeper.UpdateNSTBalance(ctx, w.StakerID[s], w.AssetID[a], dlt)
	case "ReleaseHold":
		var kk []json.RawMessage
		must(json.Unmarshal(e.A["k"], &kk))
		var o, txh string
		json.Unmarshal(kk[0], &o)
		json.Unmarshal(kk[3], &txh)
		start, _ := ParseNum(kk[1])
		nonce, _ := ParseNum(kk[2])
		// model start heights do not survive the blocksPer mapping: release a hold of the
		// matching (operator, nonce, txh) record instead
		key := d.findRecordKey(o, nonce.Uint64(), txh)
		_ = start
		if key == nil {
			args["k"] = []interface{}{o, 0, nonce.Uint64(), txh}
			return fmt.Errorf("no such record")
		}
		f, _ := delegationtypes.ParseUndelegationRecordKey(key)
		args["k"] = []interface{}{o, f.BlockHeight, f.LzNonce, txh}
		return k.DelegationKeeper.DecrementUndelegationHoldCount(ctx, key)
	case "SetHeight":
		// the chain restarts from a genesis document that carries the present module state with another
		// initial height (absolute height: worlds using this event run with blocksPer = 1)
		h := e.big("h").Int64()
		args["h"] = h
		hd := ctx.BlockHeader()
		hd.Height = h
		d.ctx = ctx.WithBlockHeader(hd)
		return nil
	case "EndBlock":
		k.DelegationKeeper.EndBlock(ctx, abci.RequestEndBlock{Height: ctx.BlockHeight()})
		h := ctx.BlockHeader()
		h.Height++
		d.ctx = ctx.WithBlockHeader(h)
		return nil
	}
	return fmt.Errorf("unknown event %s", e.Ev)
}

// callPrecompile executes the event through the assets / delegation precompile as the gateway
// contract (LST assets only); done=false means "not a precompile event, use the keeper path".
func (d *ledgerDriver) callPrecompile(e BEvent, args map[string]interface{}) (bool, error) {
	w, ctx := d.w, d.ctx
	a := e.str("a")
	if e.Ev != "Associate" && e.Ev != "Dissociate" && kindOf(a) != "lst" {
		return false, nil
	}
	res := func(ok bool, err error) (bool, error) {
		if err != nil {
			return true, err
		}
		if !ok {
			return true, fmt.Errorf("precompile returned false")
		}
		return true, nil
	}
	switch e.Ev {
	case "Deposit", "Withdraw":
		s := e.str("s")
		x := d.amt(e, "x")
		args["s"], args["a"], args["x"] = s, a, NI(x)
		m := "depositLST"
		if e.Ev == "Withdraw" {
			m = "withdrawLST"
		}
		return res(RunPrecompile(w, ctx, AssetsPrecompileAddr, gatewayAddr, common.Hash{}, m, uint32(LzID), leftAligned32(w.AssetAddr[a].Bytes()), leftAligned32(d.stakerAddr(s, a)), x.BigInt()))
	case "Delegate", "Undelegate":
		s, o := e.str("s"), e.str("o")
		x := d.amt(e, "x")
		args["s"], args["a"], args["o"], args["x"] = s, a, o, NI(x)
		nonce := uint64(0)
		txh := common.Hash{}
		m := "delegate"
		if e.Ev == "Undelegate" {
			m = "undelegate"
			nonce = e.big("nonce").Uint64()
			txh = txHashOf(e.str("txh"))
			args["nonce"], args["txh"] = nonce, e.str("txh")
		}
		return res(RunPrecompile(w, ctx, DelegationPrecompileAddr, gatewayAddr, txh, m, uint32(LzID), nonce, leftAligned32(w.AssetAddr[a].Bytes()), leftAligned32(d.stakerAddr(s, a)), []byte(w.Op(o).String()), x.BigInt()))
	case "Associate":
		s, o := e.str("s"), e.str("o")
		args["s"], args["o"] = s, o
		return res(RunPrecompile(w, ctx, DelegationPrecompileAddr, gatewayAddr, common.Hash{}, "associateOperatorWithStaker", uint32(LzID), leftAligned32(d.stakerAddr(s, "")), []byte(w.Op(o).String())))
	case "Dissociate":
		s := e.str("s")
		args["s"] = s
		return res(RunPrecompile(w, ctx, DelegationPrecompileAddr, gatewayAddr, common.Hash{}, "dissociateOperatorFromStaker", uint32(LzID), leftAligned32(d.stakerAddr(s, ""))))
	}
	return false, nil
}

func (d *ledgerDriver) findRecordKey(o string, nonce uint64, txh string) []byte {
	recs, _ := d.w.App.DelegationKeeper.AllUndelegations(d.ctx)
	for _, r := range recs {
		if d.w.OpModel[r.OperatorAddr] == o && r.LzTxNonce == nonce && r.TxHash == txHashOf(txh).String() {
			return delegationtypes.GetUndelegationRecordKey(r.BlockNumber, r.LzTxNonce, r.TxHash, r.OperatorAddr)
		}
	}
	return nil
}

// ---------------------------------------------------------------------------------------------
// projection

var txhNames = map[string]string{}

// txHashNames registers the hash the delegation msg server derives for (tx bytes, nonce) under the model name t
// (msg_server.go: sha256(fmt.Sprintf("%s-%d", sha256(txBytes), nonce)))
func txHashNames(txBytes []byte, nonce uint64, t string) {
	h1 := sha256.Sum256(txBytes)
	h2 := sha256.Sum256([]byte(fmt.Sprintf("%s-%d", h1, nonce)))
	txhNames[common.Hash(h2).String()] = t
}

func txhModel(h string) string {
	if n, ok := txhNames[h]; ok {
		return n
	}
	for i := 1; i <= 64; i++ {
		t := fmt.Sprintf("t%d", i)
		if txHashOf(t).String() == h {
			txhNames[h] = t
			return t
		}
	}
	return h
}

func (d *ledgerDriver) recKeyModel(key string) []interface{} {
	f, err := delegationtypes.ParseUndelegationRecordKey([]byte(key))
	if err != nil {
		return []interface{}{key, 0, 0, ""}
	}
	return []interface{}{d.w.OpModel[f.OperatorAddr], f.BlockHeight, f.LzNonce, txhModel(f.TxHash)}
}

func (d *ledgerDriver) project() map[string]interface{} {
	w, ctx := d.w, d.ctx
	k := w.App
	st := map[string]interface{}{"h": ctx.BlockHeight()}
	total := map[string]Num{}
	infos, _ := k.AssetsKeeper.GetAllStakingAssetsInfo(ctx)
	for _, i := range infos {
		_, aid := assetstypes.GetStakerIDAndAssetIDFromStr(i.AssetBasicInfo.LayerZeroChainID, "", i.AssetBasicInfo.Address)
		if m, ok := w.AssetModel[aid]; ok {
			total[m] = NI(i.StakingTotalAmount)
		}
	}
	st["total"] = total
	stk := []map[string]interface{}{}
	deps, _ := k.AssetsKeeper.AllDeposits(ctx)
	for _, ds := range deps {
		for _, dd := range ds.Deposits {
			stk = append(stk, map[string]interface{}{"s": w.StakerModel[ds.StakerID], "a": w.AssetModel[dd.AssetID], "dep": NI(dd.Info.TotalDepositAmount), "wd": NI(dd.Info.WithdrawableAmount), "pend": NI(dd.Info.PendingUndelegationAmount)})
		}
	}
	st["stk"] = stk
	pool := []map[string]interface{}{}
	oas, _ := k.AssetsKeeper.AllOperatorAssets(ctx)
	for _, oa := range oas {
		for _, as := range oa.AssetsState {
			pool = append(pool, map[string]interface{}{"o": w.OpModel[oa.Operator], "a": w.AssetModel[as.AssetID], "amt": NI(as.Info.TotalAmount), "pend": NI(as.Info.PendingUndelegationAmount), "tsh": ND(as.Info.TotalShare), "osh": ND(as.Info.OperatorShare)})
		}
	}
	st["pool"] = pool
	del := []map[string]interface{}{}
	dss, _ := k.DelegationKeeper.AllDelegationStates(ctx)
	for _, ds := range dss {
		keys, _ := assetstypes.ParseJoinedStoreKey([]byte(ds.Key), 3)
		del = append(del, map[string]interface{}{"s": w.StakerModel[keys[0]], "a": w.AssetModel[keys[1]], "o": w.OpModel[keys[2]], "sh": ND(ds.States.UndelegatableShare), "wait": NI(ds.States.WaitUndelegationAmount)})
	}
	st["del"] = del
	slist := []map[string]interface{}{}
	sls, _ := k.DelegationKeeper.AllStakerList(ctx)
	for _, sl := range sls {
		keys, _ := assetstypes.ParseJoinedStoreKey([]byte(sl.Key), 2)
		seq := []string{}
		for _, s := range sl.Stakers {
			seq = append(seq, w.StakerModel[s])
		}
		slist = append(slist, map[string]interface{}{"o": w.OpModel[keys[0]], "a": w.AssetModel[keys[1]], "seq": seq})
	}
	st["slist"] = slist
	assoc := []map[string]interface{}{}
	ass, _ := k.DelegationKeeper.GetAllAssociations(ctx)
	for _, a := range ass {
		assoc = append(assoc, map[string]interface{}{"s": w.StakerModel[a.StakerID], "o": w.OpModel[a.Operator]})
	}
	st["assoc"] = assoc
	recs := []map[string]interface{}{}
	rs, _ := k.DelegationKeeper.AllUndelegations(ctx)
	for _, r := range rs {
		recs = append(recs, map[string]interface{}{"s": w.StakerModel[r.StakerID], "a": w.AssetModel[r.AssetID], "o": w.OpModel[r.OperatorAddr], "start": r.BlockNumber, "nonce": r.LzTxNonce,
			"txh": txhModel(r.TxHash), "complete": r.CompleteBlockNumber, "amt": NI(r.Amount), "actual": NI(r.ActualCompletedAmount)})
	}
	st["recs"] = recs
	// raw scans of the two secondary indexes and the hold counts
	dstore := ctx.KVStore(k.GetKey(delegationtypes.StoreKey))
	idxS := []map[string]interface{}{}
	it := sdk.KVStorePrefixIterator(prefix.NewStore(dstore, delegationtypes.KeyPrefixStakerUndelegationInfo), nil)
	for ; it.Valid(); it.Next() {
		parts := strings.Split(string(it.Key()), "/")
		n, _ := hexutil.DecodeUint64(parts[len(parts)-1])
		idxS = append(idxS, map[string]interface{}{"s": w.StakerModel[parts[0]], "a": w.AssetModel[parts[1]], "nonce": n, "k": d.recKeyModel(string(it.Value()))})
	}
	it.Close()
	st["idxS"] = idxS
	idxP := []map[string]interface{}{}
	it = sdk.KVStorePrefixIterator(prefix.NewStore(dstore, delegationtypes.KeyPrefixPendingUndelegations), nil)
	for ; it.Valid(); it.Next() {
		parts := strings.Split(string(it.Key()), "/")
		c, _ := hexutil.DecodeUint64(parts[0])
		n, _ := hexutil.DecodeUint64(parts[1])
		idxP = append(idxP, map[string]interface{}{"complete": c, "nonce": n, "k": d.recKeyModel(string(it.Value()))})
	}
	it.Close()
	st["idxP"] = idxP
	hold := []map[string]interface{}{}
	it = sdk.KVStorePrefixIterator(dstore, []byte{6}) // prefixUndelegationOnHold
	for ; it.Valid(); it.Next() {
		cnt := binary.BigEndian.Uint64(it.Value())
		hold = append(hold, map[string]interface{}{"k": d.recKeyModel(string(it.Key()[1:])), "n": cnt})
	}
	it.Close()
	st["hold"] = hold
	sinfo := []map[string]interface{}{}
	sst, _ := k.OperatorKeeper.GetAllSlashStates(ctx)
	for _, s := range sst {
		keys, _ := assetstypes.ParseJoinedKey([]byte(s.Key))
		und := []map[string]interface{}{}
		pools := []map[string]interface{}{}
		var p Num
		if s.Info.ExecutionInfo != nil {
			p = ND(s.Info.ExecutionInfo.SlashProportion)
			for _, u := range s.Info.ExecutionInfo.SlashUndelegations {
				und = append(und, map[string]interface{}{"s": w.StakerModel[u.StakerID], "a": w.AssetModel[u.AssetID], "cut": NI(u.Amount)})
			}
			for _, u := range s.Info.ExecutionInfo.SlashAssetsPool {
				pools = append(pools, map[string]interface{}{"a": w.AssetModel[u.AssetID], "cut": NI(u.Amount)})
			}
		}
		sinfo = append(sinfo, map[string]interface{}{"o": w.OpModel[keys[0]], "id": keys[2], "p": p, "und": und, "pools": pools})
	}
	st["sinfo"] = sinfo
	bal := map[string]Num{}
	for i, a := range w.StAddrs {
		bal[fmt.Sprintf("s%d", i+1)] = NI(k.BankKeeper.GetBalance(ctx, sdk.AccAddress(a.Bytes()), utils.BaseDenom).Amount)
	}
	st["bal"] = bal
	st["escrow"] = NI(k.BankKeeper.GetBalance(ctx, k.AccountKeeper.GetModuleAddress(delegationtypes.DelegatedPoolName), utils.BaseDenom).Amount)
	return st
}
