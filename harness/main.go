package main

import (
	"fmt"
	"os"
	"sort"
)

// family drivers register themselves here: name -> func(args)
var commands = map[string]func(args []string) int{}

func main() {
	if len(os.Args) < 2 {
		usage()
		os.Exit(2)
	}
	cmd, ok := commands[os.Args[1]]
	if !ok {
		usage()
		os.Exit(2)
	}
	os.Exit(cmd(os.Args[2:]))
}

func usage() {
	var names []string
	for n := range commands {
		names = append(names, n)
	}
	sort.Strings(names)
	fmt.Fprintln(os.Stderr, "usage: harness <command> [flags]; commands:", names)
}

func init() {
	commands["ping"] = func(args []string) int {
		w := NewWorld(DefaultGenCfg())
		fmt.Println("height", w.Ctx.BlockHeight(), "operators", len(w.OpAddrs), "avs", w.AvsAddr)
		return 0
	}
}
