// Shared helper: call a precompile the way the EVM does (Run with a hand-built contract whose
// CallerAddress is the given identity) on an arbitrary context.
package main

import (
	"fmt"
	"math/big"

	sdk "github.com/cosmos/cosmos-sdk/types"
	"github.com/ethereum/go-ethereum/accounts/abi"
	"github.com/ethereum/go-ethereum/common"
	ethtypes "github.com/ethereum/go-ethereum/core/types"
	"github.com/ethereum/go-ethereum/core/vm"
	"github.com/evmos/evmos/v16/x/evm/statedb"

	assetsprecompile "github.com/ExocoreNetwork/exocore/precompiles/assets"
	delegationprecompile "github.com/ExocoreNetwork/exocore/precompiles/delegation"
)

var (
	AssetsPrecompileAddr     = common.HexToAddress("0x0000000000000000000000000000000000000804")
	DelegationPrecompileAddr = common.HexToAddress("0x0000000000000000000000000000000000000805")
)

// RunPrecompile returns (success flag decoded from the first output, raw error of Run).
func RunPrecompile(w *World, ctx sdk.Context, paddr common.Address, caller common.Address, txHash common.Hash, method string, args ...interface{}) (bool, error) {
	app := w.App
	p := app.EvmKeeper.Precompiles(paddr)[paddr]
	var pabi abi.ABI
	switch x := p.(type) {
	case *assetsprecompile.Precompile:
		pabi = x.ABI
	case *delegationprecompile.Precompile:
		pabi = x.ABI
	default:
		return false, fmt.Errorf("unsupported precompile %T", p)
	}
	input, err := pabi.Pack(method, args...)
	if err != nil {
		return false, err
	}
	ctx = ctx.WithGasMeter(sdk.NewInfiniteGasMeter()).WithValue(delegationprecompile.CtxKeyTxHash, txHash)
	cfg, err := app.EvmKeeper.EVMConfig(ctx, ctx.BlockHeader().ProposerAddress, app.EvmKeeper.ChainID())
	if err != nil {
		return false, err
	}
	msg := ethtypes.NewMessage(caller, &paddr, 0, big.NewInt(0), 5_000_000, big.NewInt(0), big.NewInt(0), big.NewInt(0), input, nil, true)
	sdb := statedb.New(ctx, app.EvmKeeper, statedb.NewEmptyTxConfig(common.BytesToHash(ctx.HeaderHash().Bytes())))
	evm := app.EvmKeeper.NewEVM(ctx, msg, cfg, nil, sdb)
	active := app.EvmKeeper.GetParams(ctx).GetActivePrecompilesAddrs()
	evm.WithPrecompiles(app.EvmKeeper.Precompiles(active...), active)
	contract := vm.NewPrecompile(vm.AccountRef(caller), p, big.NewInt(0), 5_000_000)
	contract.Input = input
	bz, err := p.Run(evm, contract, false)
	if err != nil {
		return false, err
	}
	vals, err := pabi.Methods[method].Outputs.Unpack(bz)
	if err != nil || len(vals) == 0 {
		return false, fmt.Errorf("undecodable output")
	}
	ok, _ := vals[0].(bool)
	return ok, nil
}

func leftAligned32(b []byte) []byte {
	out := make([]byte, 32)
	copy(out, b)
	return out
}
