// Atomic family: slash items of the block phase.
//
//   StakeNop [o]     set-up event: staker s2 deposits and delegates 5 units of the staking asset "nop" (the one
//                    that is NOT bound to an oracle token) to operator o.  From then on operator.Slash for o fails
//                    (CalculateUSDValueForOperator: "assetID does not exist in oracle") before any write.
//   Downtime [ops]   eight app.BeginBlocker calls in which the validators of the listed operators do not sign (votes
//                    in the listed order); with SignedBlocksWindow = 4 / MinSignedPerWindow = 0.5 the slashing
//                    module slashes them for downtime in one and the same block (x/slashing -> x/dogfood ->
//                    operator.SlashWithInfractionReason = one slash item each) and jails them.
//                    (Equivocation evidence cannot be used: x/evidence ignores it on this tree - ValidatorByConsAddr
//                    answers with stakingtypes.NewValidator's default status Unbonded.)  Logged per item: digest of the operator's rows in x/assets,
//                    x/delegation and of its slash records in x/operator before and after the block, whether a
//                    slash record exists afterwards, and whether the real code logged "error when executing slash".
package main

import (
	"bytes"
	"fmt"
	"sort"
	"strings"
	"time"

	sdkmath "cosmossdk.io/math"
	abci "github.com/cometbft/cometbft/abci/types"
	sdk "github.com/cosmos/cosmos-sdk/types"

	assetskeeper "github.com/ExocoreNetwork/exocore/x/assets/keeper"
	assetstypes "github.com/ExocoreNetwork/exocore/x/assets/types"
	delegationtypes "github.com/ExocoreNetwork/exocore/x/delegation/types"
	operatortypes "github.com/ExocoreNetwork/exocore/x/operator/types"
)

func (d *atomicDriver) stakeNop(e BEvent, line map[string]interface{}) {
	w, k := d.w, d.w.App
	o := d.acct[e.str("o")]
	amt := sdkmath.NewInt(5_000_000)
	var err error
	func() {
		defer func() {
			if r := recover(); r != nil {
				err = fmt.Errorf("PANIC: %v", r)
			}
		}()
		cc, write := d.ctx.CacheContext()
		if err = k.AssetsKeeper.PerformDepositOrWithdraw(cc, &assetskeeper.DepositWithdrawParams{ClientChainLzID: LzID, Action: assetstypes.DepositLST,
			AssetsAddress: w.AssetAddr["nop"].Bytes(), StakerAddress: w.StAddrs[1].Bytes(), OpAmount: amt}); err != nil {
			return
		}
		if err = k.DelegationKeeper.DelegateTo(cc, &delegationtypes.DelegationOrUndelegationParams{ClientChainID: LzID, Action: assetstypes.DelegateTo,
			AssetsAddress: w.AssetAddr["nop"].Bytes(), OperatorAddress: o, StakerAddress: w.StAddrs[1].Bytes(), OpAmount: amt}); err != nil {
			return
		}
		write()
	}()
	line["ok"], line["panic"], line["hdirty"] = err == nil, false, false
	line["cls"], line["err"] = "ok", ""
	if err != nil {
		line["cls"], line["err"] = "setup-failed", err.Error()
	}
}

// digest of everything the slash of one operator may touch: its rows in x/assets and x/delegation (every key that
// contains the operator's address) and its slash records in x/operator
func (d *atomicDriver) slashRows(s kvSnap, op sdk.AccAddress) (string, bool) {
	sel := map[string]string{}
	hasRecord := false
	b32 := op.String()
	for _, store := range []string{"assets", "delegation"} {
		for k, v := range s[store] {
			if strings.Contains(k, b32) {
				sel[store+"/"+k] = v
			}
		}
	}
	for k, v := range s["operator"] {
		if len(k) > 0 && bytes.HasPrefix([]byte(k), operatortypes.KeyPrefixOperatorSlashInfo) && strings.Contains(k, b32) {
			sel["operator/"+k] = v
			hasRecord = true
		}
	}
	return digestOf(sel), hasRecord
}

func (d *atomicDriver) downtime(e BEvent, line map[string]interface{}) {
	k := d.w.App
	ctx := d.ctx
	var ops []string
	for _, x := range strings.Split(strings.Trim(string(e.A["ops"]), "[]"), ",") {
		x = strings.Trim(strings.TrimSpace(x), `"`)
		if x != "" {
			ops = append(ops, x)
		}
	}
	absent := map[string]bool{}
	for _, o := range ops {
		absent[o] = true
	}
	power := map[string]int64{"o1": 100, "o2": 50}
	// votes in the order the behaviour lists the absent validators (the slashing module handles them in this order),
	// then the validators that sign
	var order []string
	order = append(order, ops...)
	for _, o := range []string{"o1", "o2"} {
		if !absent[o] {
			order = append(order, o)
		}
	}
	pre := atomicSnapshot(k, ctx)
	var errs []string
	panicked := ""
	cur := ctx
	for i := 0; i < 8 && panicked == ""; i++ {
		h := cur.BlockHeader()
		h.Height++
		h.Time = h.Time.Add(time.Second)
		var votes []abci.VoteInfo
		for _, o := range order {
			var n int
			fmt.Sscanf(o, "o%d", &n)
			ck := d.w.ConsKeys[fmt.Sprintf("k%d", n)]
			votes = append(votes, abci.VoteInfo{Validator: abci.Validator{Address: ck.PubKey().Address(), Power: power[o]}, SignedLastBlock: !absent[o]})
		}
		cc, write := cur.WithBlockHeader(h).WithLogger(capLogger{&errs}).CacheContext()
		func() {
			defer func() {
				if r := recover(); r != nil {
					panicked = fmt.Sprint(r)
				}
			}()
			k.BeginBlocker(cc, abci.RequestBeginBlock{Header: h, LastCommitInfo: abci.CommitInfo{Votes: votes}})
		}()
		if panicked == "" {
			write()
			cur = cur.WithBlockHeader(h).WithLogger(ctx.Logger())
		}
	}
	if panicked != "" {
		d.halted = true
		line["ok"], line["panic"], line["cls"], line["err"], line["hdirty"] = false, true, "PANIC", "PANIC: "+panicked, false
		return
	}
	d.ctx = cur
	post := atomicSnapshot(k, d.ctx)
	slashErrs := 0
	for _, s := range errs {
		if strings.Contains(s, "error when executing slash") {
			slashErrs++
		}
	}
	items := []map[string]interface{}{}
	for _, o := range ops {
		a := d.acct[o]
		r0, rec0 := d.slashRows(pre, a)
		r1, rec1 := d.slashRows(post, a)
		oi, err := k.OperatorKeeper.GetOptedInfo(d.ctx, a.String(), d.dogAddr)
		jailed := err == nil && oi.Jailed
		items = append(items, map[string]interface{}{"o": o, "pre": r0, "post": r1, "rec0": rec0, "rec1": rec1, "jailed": jailed})
	}
	sort.Strings(errs)
	line["items"], line["slashErrs"], line["logged"] = items, slashErrs, strings.Join(errs, " || ")
	line["ok"], line["panic"], line["cls"], line["err"], line["hdirty"] = true, false, "ok", "", false
}

// projection of the slash part of the abstract state
func (d *atomicDriver) projectSlash(st map[string]interface{}) {
	k, ctx := d.w.App, d.ctx
	snap := atomicSnapshot(k, ctx)
	nopool, slashed, tomb := []string{}, []string{}, []string{}
	for _, m := range []string{"o1", "o2", "o3"} {
		a := d.acct[m]
		if _, err := k.AssetsKeeper.GetOperatorSpecifiedAssetInfo(ctx, a, d.asset["nop"]); err == nil {
			nopool = append(nopool, m)
		}
		if _, rec := d.slashRows(snap, a); rec {
			slashed = append(slashed, m)
		}
		if oi, err := k.OperatorKeeper.GetOptedInfo(ctx, a.String(), d.dogAddr); err == nil && oi.Jailed {
			tomb = append(tomb, m)
		}
	}
	st["nopool"], st["slashed"], st["tomb"] = nopool, slashed, tomb
}
