// Atomic family, kind "ora": oracle price transactions through the REAL DeliverTx of a running chain
// (blocks are begun / ended / committed by the application), with the full digest - every KV store of
// the deliver state plus the oracle's process memory - taken before and after every transaction.
// Reuses the oracle family's node (harness/oracle.go) and memory walker (harness/oracle_reflect.go).
//
// World: three validators of equal power (a price needs all three: power*3 > total*2), MaxNonce 3,
// feeder f1 on token t1 with rounds based at blocks 1, 9, ...; the behaviour's transactions are all
// delivered in block 2 (window of the round based at 1: blocks 2..4).
// Message classes: good (base block 1), base (base block 5: "baseblock not match"), feeder (unknown
// feeder 9: "context not exist or not available").
package main

import (
	"encoding/json"
	"fmt"
	"regexp"
	"strconv"
	"strings"

	"github.com/ethereum/go-ethereum/crypto"
)

func crypto256(b []byte) []byte { return crypto.Keccak256Hash(b).Bytes() }

var msgIndexRe = regexp.MustCompile(`message index: (\d+)`)

func runAtomicOra(bi int, b []BEvent, tw *TraceWriter) {
	cfg := OCfg{Pw: map[string]int64{"v1": 1, "v2": 1, "v3": 1}, Mn: 3, Md: 2, Ms: 3,
		Fd:  map[string]OFeeder{"f1": {Tok: "t1", Start: 1, Iv: 8, Sr: 2, End: 0}, "f2": {Tok: "t2", Start: 1000000, Iv: 10, Sr: 1, End: 0}},
		Gen: map[string]int64{"t1": 7, "t2": 0}}
	n := newOracleNode(cfg)
	n.initChain("")
	if halt := n.endAndCommit(); halt != "" {
		panic("atomic/ora: block 1 did not end: " + halt)
	}
	if halt := n.beginNext(); halt != "" {
		panic("atomic/ora: block 2 did not begin: " + halt)
	}
	nonce := map[string]int32{}
	tw.Emit(map[string]interface{}{"ev": "reset", "b": bi, "kind": "ora", "cfg": map[string]interface{}{"accts": atomicAccts, "keys": atomicKeys}, "st": map[string]interface{}{}, "ok": true})
	for _, e := range b {
		switch e.Ev {
		case "OraTx":
			var ms []struct {
				V   string `json:"v"`
				Cls string `json:"cls"`
			}
			must(json.Unmarshal(e.A["msgs"], &ms))
			var msgs []OMsg
			echo := []map[string]interface{}{}
			for _, m := range ms {
				nonce[m.V]++
				om := OMsg{V: m.V, F: "f1", Base: 1, Nonce: nonce[m.V], Ps: []OPrice{{D: "1", P: json.RawMessage("10")}}}
				switch m.Cls {
				case "base":
					om.Base = 5
				case "feeder":
					om.F = "f9"
				}
				msgs = append(msgs, om)
				echo = append(echo, map[string]interface{}{"v": m.V, "cls": m.Cls})
			}
			pre := takeDigest(n.app, n.ctx())
			ok, code, lg, pan := n.deliver(msgs)
			post := takeDigest(n.app, n.ctx())
			cls := "ok"
			if pan {
				cls = "PANIC"
			} else if !ok {
				idx := "?"
				if m := msgIndexRe.FindStringSubmatch(lg); m != nil {
					i, _ := strconv.Atoi(m[1])
					idx = strconv.Itoa(i + 1)
				}
				switch {
				case strings.Contains(lg, "feeder not found"):
					cls = "ante_feeder"
				case strings.Contains(lg, "validator not found"):
					cls = "ante_validator"
				case strings.Contains(lg, "context not exist"):
					cls = "m" + idx + "_ctx"
				case strings.Contains(lg, "baseblock not match"):
					cls = "m" + idx + "_base"
				case strings.Contains(lg, "price proposal ignored"):
					cls = "m" + idx + "_dup"
				default:
					cls = fmt.Sprintf("unclassified(code %d): %s", code, lg)
					if len(cls) > 120 {
						cls = cls[:120]
					}
				}
			}
			if strings.HasPrefix(cls, "ante_") {
				for _, m := range ms {
					nonce[m.V]-- // rejected by the ante handler: no nonce was consumed
				}
			}
			tw.Emit(map[string]interface{}{"ev": "OraTx", "a": map[string]interface{}{"msgs": echo}, "ok": ok, "cls": cls, "err": lg, "panic": pan, "hdirty": false,
				"dpre": pre.asMap(), "dpost": post.asMap(), "diff": digestDiff(pre, post), "st": map[string]interface{}{}})
		default:
			panic("atomic/ora: unknown event " + e.Ev)
		}
	}
}
