// Epochs family driver (C15): executes TLC-generated behaviours of MC_Epochs on a full ExocoreApp.
//
// One behaviour = one x/epochs genesis (per identifier: start time, duration, optionally a
// mid-count entry) + a sequence of block-time steps.  For every behaviour a fresh app is built
// (InitChain with the custom epochs genesis), real blocks are driven through
// BeginBlock / EndBlock / Commit with the header times of the behaviour, and after every
// BeginBlock the driver logs
//   - AllEpochInfos (the per-identifier clock),
//   - every epoch-hook delivery observed by hook H2 (x/epochs/types/hooks.go: verifEpochHook):
//     kind, identifier, number, fan-out index and the subscriber (derived from the concrete Go
//     type of the hook that is about to be called, i.e. the real wiring of app.go),
//   - the epoch_start / epoch_end events of ResponseBeginBlock.
// Optionally a second ("solo") app is driven through the same block times with a genesis in which
// the OTHER identifiers are removed / made inert; the trace spec compares the trajectories of the
// kept identifiers (non-interference part of C15).
//
// Time: all times are logged as integers in `unit`s (cfg unitsNs, one picked per behaviour)
// relative to the time of block 1 (NewWorld runs block 1 at genesis + 1 s).
package main

import (
	"encoding/json"
	"flag"
	"fmt"
	"math/rand"
	"reflect"
	"sort"
	"strconv"
	"strings"
	"time"

	abci "github.com/cometbft/cometbft/abci/types"
	tmproto "github.com/cometbft/cometbft/proto/tendermint/types"

	epochstypes "github.com/ExocoreNetwork/exocore/x/epochs/types"
)

type EpochsCfg struct {
	UnitsNs []int64 `json:"unitsNs"` // candidate time units (nanoseconds; each divides or is a multiple of 1 s); one is picked per behaviour
	Solo    int     `json:"solo"`    // run the non-interference world for every Solo-th behaviour (0 = never)
}

// EpochTpl is one genesis entry in model terms (times in units relative to block 1).
type EpochTpl struct {
	Z       bool  `json:"z"`       // StartTime is the zero time (AddEpochInfo fills in the genesis time)
	Start   int64 `json:"start"`   // StartTime (ignored when Z)
	Dur     int64 `json:"dur"`     // Duration (<= 0: invalid entry, silently dropped by InitGenesis)
	Started bool  `json:"started"` // EpochCountingStarted
	Cur     int64 `json:"cur"`     // CurrentEpoch
	Cs      int64 `json:"cs"`      // CurrentEpochStartTime (ignored when Csz)
	Csz     bool  `json:"csz"`     // CurrentEpochStartTime is the zero time
	Csh     int64 `json:"csh"`     // CurrentEpochStartHeight
}

type epochNote struct {
	Kind string `json:"kind"`
	ID   string `json:"id"`
	N    int64  `json:"n"`
	I    int    `json:"i"`
	Sub  string `json:"sub"`
}

// subscriber name from the concrete hook type (package path of the wrapper)
func subscriberName(h epochstypes.EpochHooks) string {
	t := reflect.TypeOf(h)
	for t.Kind() == reflect.Ptr {
		t = t.Elem()
	}
	p := t.PkgPath()
	const pre = "github.com/ExocoreNetwork/exocore/x/"
	if strings.HasPrefix(p, pre) {
		p = strings.TrimPrefix(p, pre)
		if i := strings.Index(p, "/"); i >= 0 {
			p = p[:i]
		}
	}
	switch p {
	case "feedistribution":
		return "distribution"
	case "exomint":
		return "mint"
	}
	return p
}

// the identifiers other modules need in genesis (dogfood, exomint: day; feedistribution: minute)
var requiredEpochIDs = []string{"day", "hour", "minute", "week"}

type epochsWorld struct {
	w      *World
	unit   time.Duration
	b1     time.Time // time of block 1 = origin of model time
	header tmproto.Header
	now    int64 // model time of the last block
	notes  []epochNote
	halted bool
}

func (ew *epochsWorld) record(kind, id string, n int64, i int, h epochstypes.EpochHooks) {
	ew.notes = append(ew.notes, epochNote{Kind: kind, ID: id, N: n, I: i, Sub: subscriberName(h)})
}

// toUnits converts a time to model units relative to block 1; ok=false if it is not on the grid.
func (ew *epochsWorld) toUnits(t time.Time) (int64, bool) {
	d := t.Sub(ew.b1)
	q := int64(d / ew.unit)
	r := d % ew.unit
	if r < 0 { // floor
		q--
	}
	return q, r == 0
}

func (ew *epochsWorld) concrete(id string, tp EpochTpl) epochstypes.EpochInfo {
	e := epochstypes.EpochInfo{Identifier: id, Duration: time.Duration(tp.Dur) * ew.unit, CurrentEpoch: tp.Cur,
		CurrentEpochStartHeight: tp.Csh, EpochCountingStarted: tp.Started}
	if !tp.Z {
		e.StartTime = ew.b1.Add(time.Duration(tp.Start) * ew.unit)
	}
	if !tp.Csz {
		e.CurrentEpochStartTime = ew.b1.Add(time.Duration(tp.Cs) * ew.unit)
	}
	return e
}

// newEpochsWorld builds an app whose x/epochs genesis is `gen` (identifiers in the order `order`).
func newEpochsWorld(unit time.Duration, order []string, gen map[string]EpochTpl) *epochsWorld {
	gc := DefaultGenCfg()
	gc.NOperators, gc.NStakers = 1, 1
	ew := &epochsWorld{unit: unit, b1: gc.GenesisTime.Add(time.Second)}
	gc.GenesisMut = func(w *World, gs map[string]json.RawMessage) {
		var infos []epochstypes.EpochInfo
		for _, id := range order {
			infos = append(infos, ew.concrete(id, gen[id]))
		}
		gs[epochstypes.ModuleName] = w.App.AppCodec().MustMarshalJSON(epochstypes.NewGenesisState(infos))
	}
	// block 1 is executed inside NewWorld: the recorder must be installed before
	epochstypes.VerifEpochHook = ew.record
	ew.w = NewWorld(gc)
	ew.header = ew.w.Header
	return ew
}

func (ew *epochsWorld) project() map[string]interface{} {
	ctx := ew.w.App.BaseApp.NewContext(false, ew.header)
	info := map[string]interface{}{}
	ids := []string{}
	for _, e := range ew.w.App.EpochsKeeper.AllEpochInfos(ctx) {
		ids = append(ids, e.Identifier)
		m := map[string]interface{}{"started": e.EpochCountingStarted, "cur": e.CurrentEpoch, "csh": e.CurrentEpochStartHeight}
		st, ok := ew.toUnits(e.StartTime)
		m["start"], m["ogs"] = st, !ok
		m["dur"], m["ogd"] = int64(e.Duration/ew.unit), e.Duration%ew.unit != 0
		if e.CurrentEpochStartTime.IsZero() {
			m["cs"], m["csz"], m["ogc"] = 0, true, false
		} else {
			cs, ok := ew.toUnits(e.CurrentEpochStartTime)
			m["cs"], m["csz"], m["ogc"] = cs, false, !ok
		}
		info[e.Identifier] = m
	}
	return map[string]interface{}{"ids": ids, "info": info}
}

func (ew *epochsWorld) takeNotes() []epochNote {
	n := ew.notes
	ew.notes = nil
	if n == nil {
		n = []epochNote{}
	}
	return n
}

// epoch events of a BeginBlock response: kind, id, n, and (start only) the start_time attribute
// as whole seconds relative to block 1.
func (ew *epochsWorld) epochEvents(evs []abci.Event) []map[string]interface{} {
	out := []map[string]interface{}{}
	for _, e := range evs {
		if e.Type != epochstypes.EventTypeEpochEnd && e.Type != epochstypes.EventTypeEpochStart {
			continue
		}
		m := map[string]interface{}{"kind": strings.TrimPrefix(e.Type, "epoch_"), "sec": 0}
		for _, a := range e.Attributes {
			switch a.Key {
			case epochstypes.AttributeEpochIdentifier:
				m["id"] = a.Value
			case epochstypes.AttributeEpochNumber:
				n, _ := strconv.ParseInt(a.Value, 10, 64)
				m["n"] = n
			case epochstypes.AttributeEpochStartTime:
				s, _ := strconv.ParseInt(a.Value, 10, 64)
				m["sec"] = s - ew.b1.Unix()
			}
		}
		out = append(out, m)
	}
	return out
}

// finishBlock runs EndBlock + Commit of the block whose BeginBlock has been executed.
func (ew *epochsWorld) finishBlock() (panicked string) {
	defer func() {
		if r := recover(); r != nil {
			panicked = fmt.Sprint(r)
			ew.halted = true
		}
	}()
	ew.w.App.EndBlock(abci.RequestEndBlock{Height: ew.header.Height})
	ew.w.App.Commit()
	return ""
}

// beginNext runs BeginBlock of the next block at model time now+dt.
func (ew *epochsWorld) beginNext(dt int64) (evs []map[string]interface{}, panicked string) {
	defer func() {
		if r := recover(); r != nil {
			panicked = fmt.Sprint(r)
			ew.halted = true
		}
	}()
	ew.now += dt
	ew.header.Height++
	ew.header.Time = ew.b1.Add(time.Duration(ew.now) * ew.unit)
	epochstypes.VerifEpochHook = ew.record
	res := ew.w.App.BeginBlock(abci.RequestBeginBlock{Header: ew.header})
	return ew.epochEvents(res.Events), ""
}

// what was observed in one block
type epochObs struct {
	Dt, T, H int64
	NoEv     bool
	Panic    string
	St       map[string]interface{}
	Notes    []epochNote
	Evs      []map[string]interface{}
}

// runEpochWorld builds an app with the given epochs genesis and drives one real block per entry of
// dts (dts[0] belongs to block 1, which NewWorld has already begun at model time 0).
func runEpochWorld(unit time.Duration, order []string, gen map[string]EpochTpl, dts []int64) []epochObs {
	ew := newEpochsWorld(unit, order, gen)
	defer func() { epochstypes.VerifEpochHook = nil }()
	var out []epochObs
	for k, dt := range dts {
		o := epochObs{Evs: []map[string]interface{}{}}
		if k == 0 {
			// block 1 (time 0, height 1) ran inside NewWorld; its events are not observable
			dt = 0
			o.NoEv = true
		} else {
			if p := ew.finishBlock(); p != "" {
				o.Panic = "EndBlock/Commit: " + p
			} else {
				evs, p := ew.beginNext(dt)
				o.Panic = p
				if evs != nil {
					o.Evs = evs
				}
			}
		}
		o.Dt, o.T, o.H = dt, ew.now, ew.header.Height
		o.Notes = ew.takeNotes()
		o.St = ew.project()
		out = append(out, o)
		if ew.halted {
			break
		}
	}
	return out
}

func runEpochs(args []string) int {
	fs := flag.NewFlagSet("epochs", flag.ExitOnError)
	in := fs.String("in", "", "behaviours (ndjson of event arrays)")
	out := fs.String("out", "", "trace output (ndjson)")
	seed := fs.Int64("seed", 1, "seed")
	cfgS := fs.String("cfg", "{}", "EpochsCfg JSON")
	fs.Parse(args)
	var ec EpochsCfg
	must(json.Unmarshal([]byte(*cfgS), &ec))
	if len(ec.UnitsNs) == 0 {
		ec.UnitsNs = []int64{1000000000}
	}
	rng := rand.New(rand.NewSource(*seed))
	tw := NewTraceWriter(*out)
	defer tw.Close()

	behaviours := ReadBehaviours(*in)
	for bi, b := range behaviours {
		if len(b) == 0 || b[0].Ev != "Genesis" {
			panic("behaviour must start with a Genesis event")
		}
		var gen map[string]EpochTpl
		must(json.Unmarshal(b[0].A["g"], &gen))
		// every random choice is drawn (so that the stream does not depend on pinning) and may be
		// pinned by the behaviour itself (replay): a.uns, a.order, a.soloIds
		uns := ec.UnitsNs[rng.Intn(len(ec.UnitsNs))]
		if raw, ok := b[0].A["uns"]; ok {
			var us string
			must(json.Unmarshal(raw, &us))
			uns, _ = strconv.ParseInt(us, 10, 64)
		}
		const sec = int64(time.Second)
		if uns <= 0 || (sec%uns != 0 && uns%sec != 0) {
			panic("unit must divide or be a multiple of one second")
		}
		// start_time attribute (whole seconds) = floor(units * sn / sd)
		sn, sd := int64(1), int64(1)
		if uns >= sec {
			sn = uns / sec
		} else {
			sd = sec / uns
		}
		unit := time.Duration(uns)
		// identifiers other modules need must exist and be valid
		for _, id := range requiredEpochIDs {
			tp, ok := gen[id]
			if !ok || tp.Dur <= 0 {
				gen[id] = EpochTpl{Z: false, Start: 1 << 16, Dur: 1 << 16, Csz: true} // inert: starts far in the future
			}
		}
		// zero start time = genesis time = block 1 - 1 s: representable only if the unit divides 1 s
		gt := int64(0)
		if sec%uns == 0 {
			gt = -sec / uns
		} else {
			for id, tp := range gen {
				if tp.Z {
					tp.Z, tp.Start = false, -1
					gen[id] = tp
				}
			}
		}
		// order of the entries in the genesis file: seed-chosen (the store order is what counts)
		var order []string
		for id := range gen {
			order = append(order, id)
		}
		sort.Strings(order)
		rng.Shuffle(len(order), func(i, j int) { order[i], order[j] = order[j], order[i] })
		if raw, ok := b[0].A["order"]; ok {
			var po []string
			must(json.Unmarshal(raw, &po))
			if len(po) == len(order) {
				order = po
			}
		}

		// block-time steps of the behaviour (the first Block event is block 1, already fixed at time 0)
		var dts []int64
		for _, e := range b[1:] {
			if e.Ev != "Block" {
				panic("unknown event " + e.Ev)
			}
			dts = append(dts, e.big("dt").Int64())
		}

		main := runEpochWorld(unit, order, gen, dts)

		// solo world: keep a seed-chosen non-empty proper subset of the identifiers, make the others
		// inert / absent; driven through the same block times AFTER the main world has finished
		// (the oracle keeps package-level state, so two apps are never interleaved)
		var solo []epochObs
		soloIDs := []string{}
		_, pinnedSolo := b[0].A["soloIds"]
		if (ec.Solo > 0 && bi%ec.Solo == 0) || pinnedSolo {
			sg := map[string]EpochTpl{}
			sorted := append([]string{}, order...)
			sort.Strings(sorted)
			for _, id := range sorted {
				if rng.Intn(2) == 0 && gen[id].Dur > 0 {
					sg[id] = gen[id]
					soloIDs = append(soloIDs, id)
				}
			}
			if pinnedSolo {
				var ps []string
				must(json.Unmarshal(b[0].A["soloIds"], &ps))
				sg, soloIDs = map[string]EpochTpl{}, []string{}
				for _, id := range ps {
					if tp, ok := gen[id]; ok && tp.Dur > 0 {
						sg[id] = tp
						soloIDs = append(soloIDs, id)
					}
				}
			}
			if len(soloIDs) == 0 || len(soloIDs) == len(sorted) {
				// degenerate draw: keep exactly the first valid identifier
				sg, soloIDs = map[string]EpochTpl{}, []string{}
				for _, id := range sorted {
					if gen[id].Dur > 0 {
						sg[id] = gen[id]
						soloIDs = []string{id}
						break
					}
				}
			}
			for _, id := range requiredEpochIDs {
				if _, ok := sg[id]; !ok {
					sg[id] = EpochTpl{Z: false, Start: 1 << 16, Dur: 1 << 16, Csz: true}
				}
			}
			var sorder []string
			for id := range sg {
				sorder = append(sorder, id)
			}
			sort.Strings(sorder)
			solo = runEpochWorld(unit, sorder, sg, dts[:len(main)])
		}

		idord := append([]string{}, order...)
		sort.Strings(idord) // byte order = store-key order
		// header line: constants for the spec.  Block 1 is executed inside NewWorld, so the state
		// after InitChain is not observable; `st` of the reset line is the genesis INPUT and the
		// trace spec derives the post-genesis state from it (AddEpochInfo) in both lanes.
		tw.Emit(map[string]interface{}{"ev": "reset", "b": bi,
			"cfg": map[string]interface{}{"gt": gt, "uns": strconv.FormatInt(uns, 10), "sn": sn, "sd": sd, "gen": gen, "order": order, "idord": idord, "soloIds": soloIDs},
			"st":  map[string]interface{}{"gen": gen}})
		for k, o := range main {
			line := map[string]interface{}{"ev": "Block", "a": map[string]interface{}{"dt": o.Dt, "t": o.T, "h": o.H},
				"ok": o.Panic == "", "panic": o.Panic != "", "noev": o.NoEv, "st": o.St, "notes": o.Notes, "evs": o.Evs}
			if o.Panic != "" {
				line["err"] = "PANIC: " + o.Panic
			}
			if k < len(solo) {
				so := solo[k]
				line["solo"] = map[string]interface{}{"on": true, "halted": so.Panic != "", "st": so.St, "notes": so.Notes, "evs": so.Evs}
			} else {
				line["solo"] = map[string]interface{}{"on": false}
			}
			tw.Emit(line)
		}
	}
	fmt.Printf("epochs: behaviours=%d events=%d\n", len(behaviours), tw.n)
	return 0
}

func init() { commands["epochs"] = runEpochs }
