// Reflection walker for the oracle family's H1 dump: turns any Go value (unexported fields included) into a
// generic tree, so that the projection in oracle.go depends on NAMES looked up at run time, not on the compile-time
// shape of exocore's internal types.
//
//	struct            -> rnode{"FieldName": ...}
//	map               -> []rkv sorted by rendered key (numbers numerically, everything else by its rendering)
//	slice / array     -> []interface{} in order
//	pointer/interface -> followed (nil -> nil; a pointer already on the path -> "<cycle>")
//	*big.Int, big.Int -> decimal string;  integers -> int64 / uint64;  bool, string as they are
package main

import (
	"fmt"
	"math/big"
	"reflect"
	"sort"
	"strconv"
	"unsafe"
)

type rnode = map[string]interface{}

type rkv struct {
	K  interface{} // walked key
	KS string      // stable rendering of the key
	V  interface{}
}

var bigIntType = reflect.TypeOf(big.Int{})

// clean returns a value without the read-only flag reflect puts on unexported fields
func rclean(v reflect.Value) reflect.Value {
	if v.CanAddr() {
		return reflect.NewAt(v.Type(), unsafe.Pointer(v.UnsafeAddr())).Elem()
	}
	if v.CanInterface() {
		nv := reflect.New(v.Type()).Elem()
		nv.Set(v)
		return nv
	}
	return v
}

func rwalk(x interface{}) interface{} {
	if x == nil {
		return nil
	}
	return rwalkV(reflect.ValueOf(x), map[uintptr]bool{}, 0)
}

func renderKey(k interface{}) string {
	switch t := k.(type) {
	case string:
		return t
	case int64:
		return strconv.FormatInt(t, 10)
	case uint64:
		return strconv.FormatUint(t, 10)
	case rnode:
		names := make([]string, 0, len(t))
		for n := range t {
			names = append(names, n)
		}
		sort.Strings(names)
		s := "{"
		for _, n := range names {
			s += n + "=" + renderKey(t[n]) + ";"
		}
		return s + "}"
	}
	return fmt.Sprint(k)
}

func rwalkV(v reflect.Value, path map[uintptr]bool, depth int) interface{} {
	if !v.IsValid() || depth > 24 {
		return nil
	}
	switch v.Kind() {
	case reflect.Ptr:
		if v.IsNil() {
			return nil
		}
		if v.Type().Elem() == bigIntType {
			return rclean(v).Interface().(*big.Int).String()
		}
		p := v.Pointer()
		if path[p] {
			return "<cycle>"
		}
		path[p] = true
		defer delete(path, p)
		return rwalkV(v.Elem(), path, depth+1)
	case reflect.Interface:
		if v.IsNil() {
			return nil
		}
		return rwalkV(v.Elem(), path, depth+1)
	case reflect.Struct:
		v = rclean(v)
		if v.Type() == bigIntType {
			if v.CanAddr() {
				return v.Addr().Interface().(*big.Int).String()
			}
			b := v.Interface().(big.Int)
			return b.String()
		}
		out := rnode{}
		for i := 0; i < v.NumField(); i++ {
			out[v.Type().Field(i).Name] = rwalkV(rclean(v.Field(i)), path, depth+1)
		}
		return out
	case reflect.Map:
		v = rclean(v)
		if v.IsNil() {
			return []rkv{}
		}
		out := []rkv{}
		for _, k := range v.MapKeys() {
			wk := rwalkV(rclean(k), path, depth+1)
			out = append(out, rkv{K: wk, KS: renderKey(wk), V: rwalkV(rclean(v.MapIndex(k)), path, depth+1)})
		}
		sort.Slice(out, func(i, j int) bool {
			a, aok := out[i].K.(uint64)
			b, bok := out[j].K.(uint64)
			if aok && bok {
				return a < b
			}
			c, cok := out[i].K.(int64)
			d, dok := out[j].K.(int64)
			if cok && dok {
				return c < d
			}
			return out[i].KS < out[j].KS
		})
		return out
	case reflect.Slice, reflect.Array:
		v = rclean(v)
		out := []interface{}{}
		for i := 0; i < v.Len(); i++ {
			out = append(out, rwalkV(rclean(v.Index(i)), path, depth+1))
		}
		return out
	case reflect.Int, reflect.Int8, reflect.Int16, reflect.Int32, reflect.Int64:
		return v.Int()
	case reflect.Uint, reflect.Uint8, reflect.Uint16, reflect.Uint32, reflect.Uint64, reflect.Uintptr:
		return v.Uint()
	case reflect.Bool:
		return v.Bool()
	case reflect.String:
		return v.String()
	case reflect.Float32, reflect.Float64:
		return v.Float()
	}
	return fmt.Sprintf("<%s>", v.Kind())
}

// ---- lookups with an "absent" fallback -------------------------------------------------------------------

// rget follows field names through struct nodes; nil when anything on the way is absent
func rget(x interface{}, names ...string) interface{} {
	for _, n := range names {
		m, ok := x.(rnode)
		if !ok {
			return nil
		}
		x = m[n]
	}
	return x
}

func rstr(x interface{}) string {
	switch t := x.(type) {
	case string:
		return t
	case int64:
		return strconv.FormatInt(t, 10)
	case uint64:
		return strconv.FormatUint(t, 10)
	}
	return ""
}

func rint(x interface{}) int64 {
	switch t := x.(type) {
	case int64:
		return t
	case uint64:
		return int64(t) // #nosec G115
	case string:
		i, _ := strconv.ParseInt(t, 10, 64)
		return i
	}
	return 0
}

func rbool(x interface{}) bool { b, _ := x.(bool); return b }

func rlist(x interface{}) []interface{} { l, _ := x.([]interface{}); return l }

func rmap(x interface{}) []rkv { l, _ := x.([]rkv); return l }
