// Atomic family driver (property C09 for the entry points the ledger family does not drive).
//
// Executes TLC-generated behaviours of MC_Atomic against the REAL code of a full ExocoreApp and
// records, for every event: the reported result, the class of the failure (which check of the
// entry point's validation ladder fired - taken from the error text / the precompile's error log),
// the FULL state digest before and after (harness/atomic_digest.go: every KV store + the oracle's
// process memory), the first differing key per store, and the projection of the family's abstract
// state (spec/Atomic.tla: Genesis) for the strict lane of spec/Trace_Atomic.tla.
//
// Execution modes
//   pc*   precompile methods through the real Run of the AVS / assets / reward precompile with a
//         hand-built contract (caller = the AVS contract / the gateway): an error becomes the flag
//         `false` and NOTHING is reverted - exactly what a successful EVM transaction that calls the
//         precompile keeps.  A panic is what baseapp's runTx recovers: the transaction fails and
//         its writes are dropped (the driver runs the call on a cache context for that purpose).
//   Msg*  message servers of x/operator and x/avs after ValidateBasic, on a cache context that is
//         written back only on success (= baseapp's runMsgs); `hdirty` records whether the HANDLER
//         left writes in the context it was given when it reported the failure.
//   Tick  app.BeginBlocker with the header time advanced by 61 s: the "minute" epoch ends, the
//         operator hook (one voting-power update per AVS) and the avs hook (one statistics item per
//         task) run.  Per item the driver logs the rows before / after and what the real
//         calculation functions give for the state after the block (`want`; "ERR" when the
//         calculation fails = the item fails).
//   OraTx real DeliverTx of a signed price transaction on a running chain (kind "ora" behaviours).
//   Evidence real BeginBlock with equivocation evidence for two validators (kind "evi").
package main

import (
	"os"
	"bytes"
	"encoding/json"
	"errors"
	"flag"
	"fmt"
	"math/big"
	"sort"
	"strconv"
	"strings"
	"time"

	sdkmath "cosmossdk.io/math"
	abci "github.com/cometbft/cometbft/abci/types"
	tmlog "github.com/cometbft/cometbft/libs/log"
	"github.com/cosmos/cosmos-sdk/store/prefix"
	sdk "github.com/cosmos/cosmos-sdk/types"
	slashingtypes "github.com/cosmos/cosmos-sdk/x/slashing/types"
	stakingtypes "github.com/cosmos/cosmos-sdk/x/staking/types"
	"github.com/ethereum/go-ethereum/accounts/abi"
	"github.com/ethereum/go-ethereum/common"
	ethtypes "github.com/ethereum/go-ethereum/core/types"
	"github.com/ethereum/go-ethereum/core/vm"
	"github.com/evmos/evmos/v16/x/evm/statedb"
	blscommon "github.com/prysmaticlabs/prysm/v4/crypto/bls/common"

	assetsprecompile "github.com/ExocoreNetwork/exocore/precompiles/assets"
	avsprecompile "github.com/ExocoreNetwork/exocore/precompiles/avs"
	delegationprecompile "github.com/ExocoreNetwork/exocore/precompiles/delegation"
	rewardprecompile "github.com/ExocoreNetwork/exocore/precompiles/reward"
	keytypes "github.com/ExocoreNetwork/exocore/types/keys"
	assetstypes "github.com/ExocoreNetwork/exocore/x/assets/types"
	avskeeper "github.com/ExocoreNetwork/exocore/x/avs/keeper"
	avstypes "github.com/ExocoreNetwork/exocore/x/avs/types"
	dogfoodtypes "github.com/ExocoreNetwork/exocore/x/dogfood/types"
	operatorkeeper "github.com/ExocoreNetwork/exocore/x/operator/keeper"
	operatortypes "github.com/ExocoreNetwork/exocore/x/operator/types"
	oraclekeeper "github.com/ExocoreNetwork/exocore/x/oracle/keeper"
	oracletypes "github.com/ExocoreNetwork/exocore/x/oracle/types"
)

var (
	AvsPrecompileAddr    = common.HexToAddress("0x0000000000000000000000000000000000000901")
	RewardPrecompileAddr = common.HexToAddress("0x0000000000000000000000000000000000000806")
)

// ---------------------------------------------------------------------------------------------
// logger that keeps the error a precompile's Run swallowed

type capLogger struct{ errs *[]string }

func (l capLogger) Debug(string, ...interface{}) {}
func (l capLogger) Info(msg string, kv ...interface{}) {
	if os.Getenv("ATOMIC_DEBUG") != "" {
		fmt.Fprintln(os.Stderr, "INFO", msg, kv)
	}
}
func (l capLogger) Error(msg string, kv ...interface{}) {
	s := msg
	for i := 0; i+1 < len(kv); i += 2 {
		if fmt.Sprint(kv[i]) == "err" || fmt.Sprint(kv[i]) == "error" {
			s += " | " + fmt.Sprint(kv[i+1])
		}
	}
	*l.errs = append(*l.errs, s)
}
func (l capLogger) With(...interface{}) tmlog.Logger { return l }

// ---------------------------------------------------------------------------------------------

type atomicDriver struct {
	w   *World
	ctx sdk.Context

	avsAddr  map[string]common.Address
	avsModel map[string]string
	tAddr    map[string]common.Address
	tModel   map[string]string
	acct     map[string]sdk.AccAddress
	acctM    map[string]string
	bls      map[string]blscommon.SecretKey
	asset    map[string]string         // model asset id -> assetID
	assetM   map[string]string         // assetID -> model id
	newTok   map[string]common.Address // new1, new2 -> client chain token address
	dogAddr  string
	halted   bool
}

var atomicAccts = []string{"o1", "o2", "o3", "u1", "w1", "w2"}
var atomicKeys = []string{"k1", "k2", "k3", "k4"}

func newAtomicDriver(w *World) *atomicDriver {
	d := &atomicDriver{w: w, avsAddr: map[string]common.Address{}, avsModel: map[string]string{}, tAddr: map[string]common.Address{},
		tModel: map[string]string{}, acct: map[string]sdk.AccAddress{}, acctM: map[string]string{}, bls: map[string]blscommon.SecretKey{},
		asset: map[string]string{}, assetM: map[string]string{}, newTok: map[string]common.Address{}}
	for i, a := range sortedAddrs([]string{"avsA", "avsB"}) {
		m := fmt.Sprintf("a%d", i+1)
		d.avsAddr[m] = a
		d.avsModel[strings.ToLower(a.String())] = m
	}
	for i, a := range sortedAddrs([]string{"taskA", "taskB"}) {
		m := fmt.Sprintf("t%d", i+1)
		d.tAddr[m] = a
		d.tModel[strings.ToLower(a.String())] = m
	}
	for i, a := range w.OpAddrs {
		d.acct[fmt.Sprintf("o%d", i+1)] = a
	}
	d.acct["u1"] = sdk.AccAddress(w.StAddrs[0].Bytes())
	d.acct["w1"] = sdk.AccAddress(AddrOf(EthKey("owner1")).Bytes())
	d.acct["w2"] = sdk.AccAddress(AddrOf(EthKey("owner2")).Bytes())
	for m, a := range d.acct {
		d.acctM[a.String()] = m
		d.bls[m] = avsBlsKey(m)
	}
	d.asset["lst"], d.asset["nop"] = w.AssetID["lst"], w.AssetID["nop"]
	_, d.asset["bad"] = assetstypes.GetStakerIDAndAssetIDFromStr(LzID, "", common.BytesToAddress(h256("asset:unknown")[:20]).String())
	for _, n := range []string{"new1", "new2"} {
		d.newTok[n] = common.BytesToAddress(h256("asset:" + n)[:20])
		_, d.asset[n] = assetstypes.GetStakerIDAndAssetIDFromStr(LzID, "", d.newTok[n].String())
	}
	for m, id := range d.asset {
		d.assetM[id] = m
	}
	d.dogAddr = w.AvsAddr
	d.avsModel[strings.ToLower(d.dogAddr)] = "dog"
	return d
}

func atomicGenCfg() GenCfg {
	gc := DefaultGenCfg()
	gc.NOperators = 3
	gc.NStakers = 2
	gc.Assets = []AssetCfg{{ID: "lst", Decimals: 6, Price: "1", PriceDec: 0}, {ID: "nop", Decimals: 6, Price: "1", PriceDec: 0}}
	gc.Validators = []ValCfg{{Op: 0, Power: 100}, {Op: 1, Power: 50}}
	// "nop" is a registered staking asset that is NOT bound to an oracle token
	gc.OracleMut = func(p *oracletypes.Params, g *oracletypes.GenesisState) {
		for _, t := range p.Tokens {
			if t.Name == "NOP" {
				t.AssetID = ""
			}
		}
	}
	// the chain AVS accepts the priced asset only (otherwise every opt-in into it fails on the missing oracle token)
	gc.GenesisMut = func(w *World, gs map[string]json.RawMessage) {
		var dg dogfoodtypes.GenesisState
		w.App.AppCodec().MustUnmarshalJSON(gs[dogfoodtypes.ModuleName], &dg)
		dg.Params.AssetIDs = []string{w.AssetID["lst"]}
		gs[dogfoodtypes.ModuleName] = w.App.AppCodec().MustMarshalJSON(&dg)
		// short downtime window: a validator that misses more than 2 of 4 blocks is slashed and jailed
		var sg slashingtypes.GenesisState
		w.App.AppCodec().MustUnmarshalJSON(gs[slashingtypes.ModuleName], &sg)
		sg.Params.SignedBlocksWindow = 4
		sg.Params.MinSignedPerWindow = sdk.NewDecWithPrec(5, 1)
		gs[slashingtypes.ModuleName] = w.App.AppCodec().MustMarshalJSON(&sg)
	}
	return gc
}

func runAtomic(args []string) int {
	fs := flag.NewFlagSet("atomic", flag.ExitOnError)
	in := fs.String("in", "", "behaviours (ndjson of event arrays)")
	out := fs.String("out", "", "trace output (ndjson)")
	_ = fs.Int64("seed", 1, "seed")
	fs.Parse(args)
	tw := NewTraceWriter(*out)
	defer tw.Close()
	behaviours := ReadBehaviours(*in)

	var w *World
	var base *atomicDriver
	for bi, b := range behaviours {
		kind := "ctx"
		for _, e := range b {
			if e.Ev == "OraTx" || e.Ev == "OraEndBlock" {
				kind = "ora"
			}
		}
		switch kind {
		case "ora":
			runAtomicOra(bi, b, tw)
			w = nil // the oracle node rebuilt the package-level oracle state
		default:
			if w == nil {
				w = NewWorld(atomicGenCfg())
				prm, _ := w.App.AssetsKeeper.GetParams(w.Ctx)
				prm.ExocoreLzAppAddress = gatewayAddr.String()
				must(w.App.AssetsKeeper.SetParams(w.Ctx, prm))
				// x/slashing learns a validator's public key only when x/dogfood reports a POWER CHANGE of an existing
				// validator (ApplyValidatorChanges -> AfterValidatorCreated); until then x/evidence silently ignores
				// equivocation evidence against it.  The world is the state after such a change.
				for _, ck := range w.ConsKeys {
					must(w.App.SlashingKeeper.AddPubkey(w.Ctx, ck.PubKey()))
				}
				base = newAtomicDriver(w)
			}
			ctx, _ := w.Ctx.CacheContext()
			d := *base
			d.ctx = ctx
			d.halted = false
			d.resetOracleMemory()
			tw.Emit(map[string]interface{}{"ev": "reset", "b": bi, "kind": "ctx", "cfg": d.cfgJSON(), "st": d.project(), "ok": true})
			for _, e := range b {
				if d.halted {
					break
				}
				d.exec(e, tw)
			}
		}
	}
	fmt.Printf("atomic: behaviours=%d events=%d\n", len(behaviours), tw.n)
	return 0
}

func init() { commands["atomic"] = runAtomic }

// the oracle keeps its aggregator context and caches in package-level variables: rebuild them from
// the store of this behaviour's context, so that behaviours do not leak into each other
func (d *atomicDriver) resetOracleMemory() {
	oraclekeeper.ResetAggregatorContext()
	oraclekeeper.ResetCache()
	oraclekeeper.ResetAggregatorContextCheckTx()
	_ = oraclekeeper.GetCaches()
	_ = oraclekeeper.GetAggregatorContext(d.ctx, d.w.App.OracleKeeper)
}

func (d *atomicDriver) cfgJSON() map[string]interface{} {
	return map[string]interface{}{"accts": atomicAccts, "keys": atomicKeys}
}

// ---------------------------------------------------------------------------------------------
// precompile runner (all four restaking precompiles)

type pcResult struct {
	flag   string // "true" | "false" | "empty" (Run returned no output) | "error" (Run returned an error)
	logged string
	runErr string
	panicv string
}

func (d *atomicDriver) runPC(ctx sdk.Context, paddr, caller common.Address, method string, args ...interface{}) (res pcResult) {
	app := d.w.App
	var errs []string
	ctx = ctx.WithLogger(capLogger{&errs})
	defer func() {
		if r := recover(); r != nil {
			res.panicv = fmt.Sprint(r)
			res.flag = "panic"
		}
		res.logged = strings.Join(errs, " || ")
	}()
	p := app.EvmKeeper.Precompiles(paddr)[paddr]
	var pabi abi.ABI
	switch x := p.(type) {
	case *assetsprecompile.Precompile:
		pabi = x.ABI
	case *delegationprecompile.Precompile:
		pabi = x.ABI
	case *avsprecompile.Precompile:
		pabi = x.ABI
	case *rewardprecompile.Precompile:
		pabi = x.ABI
	default:
		panic(fmt.Sprintf("unsupported precompile %T", p))
	}
	input, err := pabi.Pack(method, args...)
	must(err)
	ctx = ctx.WithGasMeter(sdk.NewInfiniteGasMeter())
	cfg, err := app.EvmKeeper.EVMConfig(ctx, ctx.BlockHeader().ProposerAddress, app.EvmKeeper.ChainID())
	must(err)
	msg := ethtypes.NewMessage(caller, &paddr, 0, big.NewInt(0), 5_000_000, big.NewInt(0), big.NewInt(0), big.NewInt(0), input, nil, true)
	sdb := statedb.New(ctx, app.EvmKeeper, statedb.NewEmptyTxConfig(common.BytesToHash(ctx.HeaderHash().Bytes())))
	evm := app.EvmKeeper.NewEVM(ctx, msg, cfg, nil, sdb)
	active := app.EvmKeeper.GetParams(ctx).GetActivePrecompilesAddrs()
	evm.WithPrecompiles(app.EvmKeeper.Precompiles(active...), active)
	contract := vm.NewPrecompile(vm.AccountRef(caller), p, big.NewInt(0), 5_000_000)
	contract.Input = input
	bz, err := p.Run(evm, contract, false)
	if err != nil {
		res.flag, res.runErr = "error", err.Error()
		return
	}
	if len(bz) == 0 {
		res.flag = "empty"
		return
	}
	vals, err := pabi.Methods[method].Outputs.Unpack(bz)
	if err != nil || len(vals) == 0 {
		res.flag, res.runErr = "error", "undecodable output"
		return
	}
	if ok, _ := vals[0].(bool); ok {
		res.flag = "true"
	} else {
		res.flag = "false"
	}
	return
}

// ---------------------------------------------------------------------------------------------
// failure classes: (entry point, substring of the error text) -> name of the ladder check

type clsRule struct{ sub, cls string }

var argIdx = func(i int) string { return fmt.Sprintf("arg index:%d,", i) }

var atomicClasses = map[string][]clsRule{
	"pcRegisterAVS": {{argIdx(0), "arg_sender0"}, {argIdx(1), "arg_name"}, {argIdx(2), "arg_minstake0"}, {argIdx(3), "arg_task0"}, {argIdx(4), "arg_slash0"},
		{argIdx(5), "arg_reward0"}, {argIdx(6), "arg_ownerbad"}, {argIdx(7), "arg_noassets"}, {argIdx(8), "arg_unbond0"}, {argIdx(10), "arg_eid0"}, {argIdx(11), "arg_params"},
		{"epoch info not found", "epoch"}, {"this TaskAddr has already been used", "taskused"}, {"the avsaddress is", "exists"}, {"Invalid assetID", "assets"}},
	"pcUpdateAVS": {{argIdx(0), "arg_sender0"}, {argIdx(3), "arg_task0"}, {argIdx(7), "arg_ownerbad"}, {argIdx(6), "arg_ownerbad"}, {argIdx(11), "arg_params"},
		{"GetAVSInfo: key is", "noavs"}, {"this caller not qualified to update", "notowner"}, {"epoch info not found", "epoch"},
		{"this TaskAddr has already been used", "taskused"}, {"Invalid assetID", "assets"}},
	"pcDeregisterAVS": {{argIdx(0), "arg_sender0"}, {argIdx(1), "arg_name0"}, {"epoch info not found", "epoch"}, {"not qualified to deregister", "notowner_or_unbonding"},
		{"Unregistered AVS name is incorrect", "name"}},
	"pcOptIn": {{argIdx(0), "arg_sender0"}, {"UpdateAVSInfo: invalid operator address", "notop0"}, {"avs does not exist", "noavs0"}, {"has already opted in the avs", "already"},
		{"error when calculating operator USD value", "usdcalc"}, {"minSelfDelegation", "minself"}},
	"pcOptOut": {{argIdx(0), "arg_sender0"}, {"UpdateAVSInfo: invalid operator address", "notop0"}, {"avs does not exist", "noavs0"}, {"hasn't opted in the avs", "notactive"}},
	"pcCreateTask": {{argIdx(0), "arg_sender0"}, {argIdx(1), "arg_name0"}, {"the taskaddr is", "noavs"}, {"not qualified to CreateAVSTask", "notowner"},
		{"the votingpower of avs", "power"}, {"epoch info not found", "epoch"}},
	"pcRegisterBLS": {{argIdx(0), "arg_sender0"}, {argIdx(1), "arg_name0"}, {"Signature and pubkey do not match", "sig"}, {"already exists", "exists"}},
	"pcChallenge": {{argIdx(0), "arg_sender0"}, {argIdx(4), "arg_op0"}, {"decoding bech32 failed", "arg_opbad"}, {"invalid bech32", "arg_opbad"}, {"task does not exist", "notask"},
		{"task hash does not match", "thash"}, {"task result does not exist", "nores"}, {"error occurred when unmarshal task response", "unmarshal"},
		{"Task response does not match", "rhash"}, {"the challenge has been raised", "already"}, {"epoch info not found", "epoch"},
		{"the challenge period has not started", "toosoon"}, {"submit  too late", "toolate"}},
	"pcRegisterChain": {{"the caller doesn't have the permission", "caller"}, {"arg index:1,", "arg_addrlen0"}, {"invalid length of staker or asset addr", "arg_addrlenshort"},
		{"nil name or too long", "arg_name"}, {"nil meta info or too long", "arg_meta"}},
	"pcRegisterToken": {{"the caller doesn't have the permission", "caller"}, {"there is no stored key for the input chain index", "nochain"}, {"invalid length of staker or asset addr", "arg_addrshort"},
		{"nil name or too long", "arg_name"}, {"nil meta info or too long", "arg_meta"}, {"oracle info is invalid", "oinfo"}, {"already exists", "assetexists"},
		{"assetID exists", "oradup"}, {"the decimal is greater than the MaxDecimal", "dec"}, {"strconv.ParseInt", "oradec"}, {"strconv.ParseUint", "oraiv"}},
	"pcUpdateToken": {{"the caller doesn't have the permission", "caller"}, {"there is no stored key for the input chain index", "nochain"}, {"invalid length of staker or asset addr", "arg_addrshort"},
		{"nil meta info or too long", "arg_meta"}, {"there is no stored key for the input assetID", "noasset"}, {"no the client chain asset key", "noasset"}},
	"pcClaimReward": {},
	"MsgRegisterOperator": {{"operator already exists", "exists"}, {"client chain earning address is empty", "earnempty"}, {"client chain not found", "earnchain"}},
	"MsgOptIn": {{"VB:", "vb_badkey"}, {"public key is not required", "keygiven"}, {"invalid public key", "nokey"}, {"the operator has not been registered", "notop"}, {"AVS not found", "noavs"},
		{"has already opted in the avs", "already"}, {"error when calculating operator USD value", "usdcalc"}, {"minSelfDelegation", "minself"},
		{"already removing consensus key", "removing"}, {"consensus key already in use", "keyinuse"}},
	"MsgOptOut": {{"the operator has not been registered", "notop"}, {"AVS not found", "noavs"}, {"the operator hasn't opted in the avs", "notactive"}},
	"MsgSetConsKey": {{"VB:", "vb_badkey"}, {"AVS not found", "notchain"}, {"operator is not active", "notactive"}, {"already removing consensus key", "removing"},
		{"consensus key already in use", "keyinuse"}},
	"MsgSubmit": {{"from address is not equal to the operator address", "from"}, {"SetTaskResultInfo:invalid operator address", "notop"}, {"SetTaskResultInfo:get operator address", "nobls"},
		{"task info not found", "notask"}, {"epoch info not found", "epoch"}, {"task result is already exists", "p1exists"}, {"BlsSignature is not be null", "p1nosig"},
		{"invalid param TaskResponseHash", "p1resp"}, {"invalid param  (TaskResponse", "p2noresp"}, {"invalid param OperatorAddress", "p2nophase1"},
		{"the TaskResponse period has not started", "p2soon"}, {"invalid TaskId param value", "p2taskid"}, {"invalid task address", "p2sig"}, {"invalid param value", "stage"}},
}

func classifyErr(ep, text string) string {
	for _, r := range atomicClasses[ep] {
		if strings.Contains(text, r.sub) {
			return r.cls
		}
	}
	if text == "" {
		return "unknown"
	}
	t := text
	if len(t) > 80 {
		t = t[:80]
	}
	return "unclassified: " + t
}

// ---------------------------------------------------------------------------------------------

func (d *atomicDriver) exec(e BEvent, tw *TraceWriter) {
	args := map[string]interface{}{}
	for k, raw := range e.A {
		var v interface{}
		json.Unmarshal(raw, &v)
		args[k] = v
	}
	pre := takeDigest(d.w.App, d.ctx)
	line := map[string]interface{}{"ev": e.Ev, "a": args}
	switch {
	case e.Ev == "Tick":
		d.tick(line)
	case e.Ev == "StakeNop":
		d.stakeNop(e, line)
	case e.Ev == "Downtime":
		d.downtime(e, line)
	case strings.HasPrefix(e.Ev, "pc"):
		d.execPC(e, line)
	case strings.HasPrefix(e.Ev, "Msg"):
		d.execMsg(e, line)
	default:
		panic("atomic: unknown event " + e.Ev)
	}
	if !d.halted {
		post := takeDigest(d.w.App, d.ctx)
		line["dpre"], line["dpost"] = pre.asMap(), post.asMap()
		line["diff"] = digestDiff(pre, post)
		line["st"] = d.project()
	} else {
		line["dpre"], line["dpost"], line["diff"], line["st"] = pre.asMap(), pre.asMap(), map[string]string{}, map[string]interface{}{}
	}
	tw.Emit(line)
}

func bechOr(d *atomicDriver, m string) sdk.AccAddress {
	if a, ok := d.acct[m]; ok {
		return a
	}
	return sdk.AccAddress(h256("acct:" + m)[:20])
}

func (d *atomicDriver) hexOfAcct(m string) common.Address { return common.BytesToAddress(bechOr(d, m).Bytes()) }

func (d *atomicDriver) assetList(al string) []string {
	switch al {
	case "L":
		return []string{d.asset["lst"]}
	case "N":
		return []string{d.asset["lst"], d.asset["nop"]}
	case "B":
		return []string{d.asset["bad"]}
	}
	return []string{}
}

func (d *atomicDriver) owners(own string) []string {
	var out []string
	switch own {
	case "W1":
		out = []string{"w1"}
	case "W12":
		out = []string{"w1", "w2"}
	case "W2":
		out = []string{"w2"}
	}
	res := []string{}
	for _, o := range out {
		res = append(res, d.acct[o].String())
	}
	return res
}

func (d *atomicDriver) avsCaller(m string) common.Address {
	if a, ok := d.avsAddr[m]; ok {
		return a
	}
	return common.BytesToAddress(h256("avs:" + m)[:20])
}
func (d *atomicDriver) taskCaller(m string) common.Address {
	if a, ok := d.tAddr[m]; ok {
		return a
	}
	return common.Address{}
}

func (d *atomicDriver) execPC(e BEvent, line map[string]interface{}) {
	bad := e.str("bad")
	var paddr, caller common.Address
	var method string
	var a []interface{}
	u64 := func(k string) uint64 { return uint64(e.i64(k)) }
	switch e.Ev {
	case "pcRegisterAVS", "pcUpdateAVS":
		paddr, caller = AvsPrecompileAddr, d.avsCaller(e.str("a"))
		method = "registerAVS"
		name := "n1"
		minStake := uint64(1)
		slash, reward := common.BytesToAddress(h256("slash")[:20]), common.BytesToAddress(h256("reward")[:20])
		unbond := u64("unb")
		if e.Ev == "pcUpdateAVS" {
			method = "updateAVS"
			name, minStake, unbond = "", 0, 0
			slash, reward = common.Address{}, common.Address{}
		}
		sender := d.hexOfAcct(e.str("sender"))
		task := d.taskCaller(e.str("t"))
		owners := d.owners(e.str("own"))
		assets := d.assetList(e.str("al"))
		eid := e.str("eid")
		params := []uint64{1, 1, 5, 5}
		if e.Ev == "pcUpdateAVS" {
			// the precompile always hands the keeper non-nil lists: "leave unchanged" = re-send the current value
			if info, err := d.w.App.AVSManagerKeeper.GetAVSInfo(d.ctx, caller.String()); err == nil {
				if e.str("own") == "" {
					owners = info.Info.AvsOwnerAddress
				}
				if e.str("al") == "" {
					assets = info.Info.AssetIDs
				}
			}
			if owners == nil {
				owners = []string{}
			}
			if assets == nil {
				assets = []string{}
			}
		}
		if e.Ev == "pcUpdateAVS" && e.str("t") == "" {
			// updateAVS refuses the zero task address: "leave unchanged" = re-send the current one
			if info, err := d.w.App.AVSManagerKeeper.GetAVSInfo(d.ctx, caller.String()); err == nil {
				task = common.HexToAddress(info.Info.TaskAddr)
			} else {
				task = d.tAddr["t1"]
			}
		}
		switch bad {
		case "sender0":
			sender = common.Address{}
		case "name":
			name = ""
		case "minstake0":
			minStake = 0
		case "task0":
			task = common.Address{}
		case "slash0":
			slash = common.Address{}
		case "reward0":
			reward = common.Address{}
		case "ownerbad":
			owners = []string{"not-a-bech32-address"}
		case "noassets":
			assets = []string{}
		case "unbond0":
			unbond = 0
		case "eid0":
			eid = ""
		case "params":
			params = []uint64{1, 2, 3}
		}
		a = []interface{}{sender, name, minStake, task, slash, reward, owners, assets, unbond, u64("ms"), eid, params}
	case "pcDeregisterAVS":
		paddr, caller, method = AvsPrecompileAddr, d.avsCaller(e.str("a")), "deregisterAVS"
		sender, name := d.hexOfAcct(e.str("sender")), e.str("name")
		if bad == "sender0" {
			sender = common.Address{}
		}
		if bad == "name0" {
			name = ""
		}
		a = []interface{}{sender, name}
	case "pcOptIn", "pcOptOut":
		paddr, caller, method = AvsPrecompileAddr, d.avsCaller(e.str("a")), "registerOperatorToAVS"
		if e.Ev == "pcOptOut" {
			method = "deregisterOperatorFromAVS"
		}
		sender := d.hexOfAcct(e.str("o"))
		if bad == "sender0" {
			sender = common.Address{}
		}
		a = []interface{}{sender}
	case "pcCreateTask":
		paddr, caller, method = AvsPrecompileAddr, d.taskCaller(e.str("t")), "createTask"
		sender, name := d.hexOfAcct(e.str("sender")), "task"
		if bad == "sender0" {
			sender = common.Address{}
		}
		if bad == "name0" {
			name = ""
		}
		a = []interface{}{sender, name, taskHash(true), u64("resp"), u64("chal"), uint64(60), u64("stat")}
	case "pcRegisterBLS":
		paddr, caller, method = AvsPrecompileAddr, d.avsCaller("a1"), "registerBLSPublicKey"
		o := e.str("o")
		sender, name := d.hexOfAcct(o), "key-"+o
		msg := h256("blsreg:" + o)
		pk, sig := d.bls[o].PublicKey().Marshal(), d.bls[o].Sign(msg).Marshal()
		switch e.str("cls") {
		case "badsig":
			sig = d.bls["w2"].Sign(msg).Marshal()
		case "junksig":
			sig = h256("junk")[:10]
		case "badpk":
			pk = make([]byte, 48)
		}
		if bad == "sender0" {
			sender = common.Address{}
		}
		if bad == "name0" {
			name = ""
		}
		a = []interface{}{sender, name, pk, sig, msg}
	case "pcChallenge":
		paddr, caller, method = AvsPrecompileAddr, d.taskCaller(e.str("t")), "challenge"
		id := u64("id")
		sender := d.hexOfAcct(e.str("sender"))
		rh, _ := avstypes.GetTaskResponseDigestEncodeByAbi(avstypes.TaskResponse{TaskID: id, NumberSum: big.NewInt(1)})
		rhash := rh[:]
		if e.str("rhash") != "good" {
			rhash = h256("another response hash")
		}
		op := bechOr(d, e.str("o")).String()
		switch bad {
		case "sender0":
			sender = common.Address{}
		case "op0":
			op = ""
		case "opbad":
			op = "not-a-bech32-address"
		}
		a = []interface{}{sender, taskHash(e.str("thash") == "good"), id, rhash, op}
	case "pcRegisterChain":
		paddr, method = AssetsPrecompileAddr, "registerOrUpdateClientChain"
		caller = d.gwCaller(e.str("caller"))
		alen, name, meta := uint8(20), "chain"+strconv.FormatInt(e.i64("id"), 10), "a client chain"
		switch bad {
		case "addrlen0":
			alen = 0
		case "addrlenshort":
			alen = 8
		case "name":
			name = ""
		case "meta":
			meta = ""
		}
		a = []interface{}{uint32(e.i64("id")), alen, name, meta, "ecdsa"}
	case "pcRegisterToken":
		paddr, method = AssetsPrecompileAddr, "registerToken"
		caller = d.gwCaller(e.str("caller"))
		as := e.str("as")
		tok := pad32(d.tokAddr(as).Bytes())
		name, meta := strings.ToUpper(as), "token "+as
		oi := strings.ToUpper(as) + ",Ethereum,8"
		switch e.str("oi") {
		case "short":
			oi = strings.ToUpper(as) + ",Ethereum"
		case "baddec":
			oi = strings.ToUpper(as) + ",Ethereum,eight"
		case "badiv":
			oi = strings.ToUpper(as) + ",Ethereum,8,often"
		}
		switch bad {
		case "addrshort":
			tok = tok[:10]
		case "name":
			name = ""
		case "meta":
			meta = ""
		}
		a = []interface{}{uint32(e.i64("chain")), tok, uint8(e.i64("dec")), name, meta, oi}
	case "pcUpdateToken":
		paddr, method = AssetsPrecompileAddr, "updateToken"
		caller = d.gwCaller(e.str("caller"))
		tok, meta := pad32(d.tokAddr(e.str("as")).Bytes()), "updated meta"
		if bad == "addrshort" {
			tok = tok[:10]
		}
		if bad == "meta" {
			meta = ""
		}
		a = []interface{}{uint32(e.i64("chain")), tok, meta}
	case "pcClaimReward":
		paddr, method = RewardPrecompileAddr, "claimReward"
		caller = d.gwCaller(e.str("caller"))
		tok, amt := pad32(d.tokAddr(e.str("as")).Bytes()), big.NewInt(5)
		if bad == "addrshort" {
			tok = tok[:10]
		}
		if bad == "amount0" {
			amt = big.NewInt(0)
		}
		a = []interface{}{uint32(e.i64("chain")), tok, pad32(d.w.StAddrs[1].Bytes()), amt}
	default:
		panic("atomic: unknown precompile event " + e.Ev)
	}
	cc, write := d.ctx.CacheContext()
	res := d.runPC(cc, paddr, caller, method, a...)
	if res.flag != "panic" {
		write() // nothing is reverted when a precompile answers `false`
	}
	ok := res.flag == "true"
	line["ok"], line["flag"], line["panic"] = ok, res.flag, res.flag == "panic"
	line["hdirty"] = false
	errText := res.logged
	if res.runErr != "" {
		errText += " || run: " + res.runErr
	}
	if res.panicv != "" {
		errText = "PANIC: " + res.panicv
	}
	if len(errText) > 400 {
		errText = errText[:400]
	}
	line["err"] = errText
	switch {
	case ok:
		line["cls"] = "ok"
	case res.flag == "panic":
		line["cls"] = "PANIC"
	case res.flag == "empty":
		line["cls"] = "notowner" // RegisterAVS: errorsmod.Wrap(nil, ..) = nil: Run returns no output at all
	case e.Ev == "pcClaimReward":
		// the reward precompile does not log the swallowed error: the class is derived from the inputs by re-running the checks
		line["cls"] = d.rewardClass(e)
	case e.Ev == "pcDeregisterAVS" && strings.Contains(errText, "not qualified to deregister"):
		if strings.Contains(errText, "this caller not qualified") {
			line["cls"] = "notowner"
		} else {
			line["cls"] = "unbonding"
		}
	default:
		line["cls"] = classifyErr(e.Ev, errText)
	}
}

func (d *atomicDriver) rewardClass(e BEvent) string {
	if e.str("caller") != "gw" {
		return "caller"
	}
	if !d.w.App.AssetsKeeper.ClientChainExists(d.ctx, uint64(e.i64("chain"))) {
		return "nochain"
	}
	switch e.str("bad") {
	case "addrshort":
		return "arg_addrshort"
	case "amount0":
		return "arg_amount0"
	}
	return "unsupported"
}

func (d *atomicDriver) gwCaller(m string) common.Address {
	if m == "gw" {
		return gatewayAddr
	}
	return common.BytesToAddress(h256("not the gateway")[:20])
}

func (d *atomicDriver) tokAddr(as string) common.Address {
	if a, ok := d.w.AssetAddr[as]; ok {
		return a
	}
	if a, ok := d.newTok[as]; ok {
		return a
	}
	return common.BytesToAddress(h256("asset:unknown")[:20])
}

func (d *atomicDriver) avsHexOf(m string) string {
	if m == "dog" {
		return d.dogAddr
	}
	return d.avsCaller(m).String()
}

func keyJSON(k string) string {
	switch k {
	case "":
		return ""
	case "junk":
		return `{"@type":"/cosmos.crypto.ed25519.PubKey","key":"not base64"}`
	}
	return WrappedKey(k).ToJSON()
}

func (d *atomicDriver) execMsg(e BEvent, line map[string]interface{}) {
	k := d.w.App
	var vb func() error
	var handler func(ctx sdk.Context) error
	switch e.Ev {
	case "MsgRegisterOperator":
		o := bechOr(d, e.str("o")).String()
		info := &operatortypes.OperatorInfo{EarningsAddr: o, ApproveAddr: o, OperatorMetaInfo: "operator " + e.str("o"),
			Commission: stakingtypes.NewCommission(sdk.ZeroDec(), sdk.ZeroDec(), sdk.ZeroDec())}
		switch e.str("earn") {
		case "ok":
			info.ClientChainEarningsAddr = &operatortypes.ClientChainEarningAddrList{EarningInfoList: []*operatortypes.ClientChainEarningAddrInfo{{LzClientChainID: LzID, ClientChainEarningAddr: "0x1111111111111111111111111111111111111111"}}}
		case "empty":
			info.ClientChainEarningsAddr = &operatortypes.ClientChainEarningAddrList{EarningInfoList: []*operatortypes.ClientChainEarningAddrInfo{{LzClientChainID: LzID, ClientChainEarningAddr: ""}}}
		case "badchain":
			info.ClientChainEarningsAddr = &operatortypes.ClientChainEarningAddrList{EarningInfoList: []*operatortypes.ClientChainEarningAddrInfo{{LzClientChainID: 999, ClientChainEarningAddr: "0x1111111111111111111111111111111111111111"}}}
		}
		req := &operatortypes.RegisterOperatorReq{FromAddress: o, Info: info}
		vb = req.ValidateBasic
		handler = func(ctx sdk.Context) error {
			_, err := operatorkeeper.NewMsgServerImpl(k.OperatorKeeper).RegisterOperator(sdk.WrapSDKContext(ctx), req)
			return err
		}
	case "MsgOptIn":
		req := &operatortypes.OptIntoAVSReq{FromAddress: bechOr(d, e.str("o")).String(), AvsAddress: d.avsHexOf(e.str("a")), PublicKeyJSON: keyJSON(e.str("key"))}
		vb = req.ValidateBasic
		handler = func(ctx sdk.Context) error {
			_, err := operatorkeeper.NewMsgServerImpl(k.OperatorKeeper).OptIntoAVS(sdk.WrapSDKContext(ctx), req)
			return err
		}
	case "MsgOptOut":
		req := &operatortypes.OptOutOfAVSReq{FromAddress: bechOr(d, e.str("o")).String(), AvsAddress: d.avsHexOf(e.str("a"))}
		vb = req.ValidateBasic
		handler = func(ctx sdk.Context) error {
			_, err := operatorkeeper.NewMsgServerImpl(k.OperatorKeeper).OptOutOfAVS(sdk.WrapSDKContext(ctx), req)
			return err
		}
	case "MsgSetConsKey":
		req := &operatortypes.SetConsKeyReq{Address: bechOr(d, e.str("o")).String(), AvsAddress: d.avsHexOf(e.str("a")), PublicKeyJSON: keyJSON(e.str("key"))}
		vb = req.ValidateBasic
		handler = func(ctx sdk.Context) error {
			_, err := operatorkeeper.NewMsgServerImpl(k.OperatorKeeper).SetConsKey(sdk.WrapSDKContext(ctx), req)
			return err
		}
	case "MsgSubmit":
		o, id := e.str("o"), uint64(e.i64("id"))
		info := &avstypes.TaskResultInfo{OperatorAddress: bechOr(d, o).String(), TaskContractAddress: d.taskCaller(e.str("t")).String(), TaskId: id, Stage: e.str("stage"),
			BlsSignature: d.sigBytes(e.str("sig"), o, id), TaskResponse: respBytes(e.str("resp"), id)}
		bz, err := info.Marshal()
		must(err)
		if e.str("sig") == "empty" {
			bz = append(bz, 0x22, 0x00)
		}
		dec := &avstypes.TaskResultInfo{}
		must(dec.Unmarshal(bz))
		req := &avstypes.SubmitTaskResultReq{FromAddress: bechOr(d, e.str("from")).String(), Info: dec}
		vb = func() error { return nil } // the message's own ValidateBasic is not part of the modelled ladder
		handler = func(ctx sdk.Context) error {
			_, err := avskeeper.NewMsgServerImpl(k.AVSManagerKeeper).SubmitTaskResult(sdk.WrapSDKContext(ctx), req)
			return err
		}
	default:
		panic("atomic: unknown message event " + e.Ev)
	}
	var err error
	panicked := ""
	hdirty := false
	func() {
		defer func() {
			if r := recover(); r != nil {
				panicked = fmt.Sprint(r)
			}
		}()
		if verr := vb(); verr != nil {
			err = errors.New("VB: " + verr.Error())
			return
		}
		cc, write := d.ctx.CacheContext() // baseapp runMsgs: the message's writes are kept only if it succeeds
		before := atomicSnapshot(k, cc)
		err = handler(cc)
		if err == nil {
			write()
		} else {
			hdirty = len(snapDiff(before, atomicSnapshot(k, cc))) > 0
		}
	}()
	ok := err == nil && panicked == ""
	line["ok"], line["panic"], line["hdirty"] = ok, panicked != "", hdirty
	switch {
	case ok:
		line["cls"], line["err"] = "ok", ""
	case panicked != "":
		line["cls"], line["err"] = "PANIC", "PANIC: "+panicked
	default:
		t := err.Error()
		line["cls"] = classifyErr(e.Ev, t)
		if e.Ev == "MsgSubmit" && strings.Contains(t, "submit  too late") {
			line["cls"] = "p" + e.str("stage") + "late"
		}
		if len(t) > 300 {
			t = t[:300]
		}
		line["err"] = t
	}
}

func (d *atomicDriver) sigTok(bz []byte, o string, id uint64) string {
	for _, c := range []string{"g1", "x1"} {
		if bytes.Equal(bz, d.sigBytes(c, o, id)) {
			return c
		}
	}
	if len(bz) == 0 {
		return "nil"
	}
	return "other"
}

func (d *atomicDriver) sigBytes(cls, o string, id uint64) []byte {
	sign := func(who, resp string) []byte {
		dg := crypto256(respBytes(resp, id))
		return d.bls[who].Sign(dg).Marshal()
	}
	if _, ok := d.bls[o]; !ok {
		o = "w2"
	}
	switch cls {
	case "g1":
		return sign(o, "r1")
	case "x1":
		return sign("w2", "r1")
	case "empty":
		return []byte{}
	}
	return nil
}

// ---------------------------------------------------------------------------------------------
// block phase

type usdRow struct {
	O                   string
	Self, Total, Active string
}

func (d *atomicDriver) vpRows(ctx sdk.Context, avs string) string {
	k := d.w.App
	var rows []string
	uvs, _ := k.OperatorKeeper.GetAllOperatorUSDValues(ctx)
	for _, uv := range uvs {
		keys, err := assetstypes.ParseJoinedStoreKey([]byte(uv.Key), 2)
		if err != nil || !strings.EqualFold(keys[0], avs) {
			continue
		}
		rows = append(rows, fmt.Sprintf("%s:%s/%s/%s", d.acctM[keys[1]], uv.OptedUSDValue.SelfUSDValue, uv.OptedUSDValue.TotalUSDValue, uv.OptedUSDValue.ActiveUSDValue))
	}
	sort.Strings(rows)
	tot := "none"
	if v, err := k.OperatorKeeper.GetAVSUSDValue(ctx, avs); err == nil {
		tot = v.String()
	}
	return strings.Join(rows, ",") + "|avs=" + tot
}

// what UpdateVotingPower has to record for the AVS, computed with the real calculation functions on ctx;
// "ERR" when the calculation fails (= the item fails)
func (d *atomicDriver) vpWant(ctx sdk.Context, avs string) string {
	k := d.w.App
	assets, err := k.AVSManagerKeeper.GetAVSSupportedAssets(ctx, avs)
	if err != nil {
		return "ERR"
	}
	decimals, err := k.AssetsKeeper.GetAssetsDecimal(ctx, assets)
	if err != nil {
		return "ERR"
	}
	prices, err := k.OracleKeeper.GetMultipleAssetsPrices(ctx, assets)
	if err != nil && !errors.Is(err, oracletypes.ErrGetPriceRoundNotFound) {
		return "ERR"
	}
	minSelf, err := k.AVSManagerKeeper.GetAVSMinimumSelfDelegation(ctx, avs)
	if err != nil {
		return "ERR"
	}
	var rows []string
	total := sdkmath.LegacyZeroDec()
	uvs, _ := k.OperatorKeeper.GetAllOperatorUSDValues(ctx)
	for _, uv := range uvs {
		keys, err := assetstypes.ParseJoinedStoreKey([]byte(uv.Key), 2)
		if err != nil || !strings.EqualFold(keys[0], avs) {
			continue
		}
		si, err := k.OperatorKeeper.CalculateUSDValueForOperator(ctx, false, keys[1], assets, decimals, prices)
		if err != nil {
			return "ERR"
		}
		active := sdkmath.LegacyZeroDec()
		if si.SelfStaking.GTE(minSelf) {
			active = si.Staking
			total = total.Add(si.Staking)
		}
		rows = append(rows, fmt.Sprintf("%s:%s/%s/%s", d.acctM[keys[1]], si.SelfStaking, si.Staking, active))
	}
	sort.Strings(rows)
	return strings.Join(rows, ",") + "|avs=" + total.String()
}

func (d *atomicDriver) taskRows(ctx sdk.Context) map[string]string {
	out := map[string]string{}
	d.w.App.AVSManagerKeeper.IterateTaskAVSInfo(ctx, func(_ int64, t avstypes.TaskInfo) bool {
		bz, _ := t.Marshal()
		out[fmt.Sprintf("%s/%d", d.tModel[strings.ToLower(t.TaskContractAddress)], t.TaskId)] = treeDigest(hexOf(bz))
		return false
	})
	return out
}

func (d *atomicDriver) tick(line map[string]interface{}) {
	k := d.w.App
	ctx := d.ctx
	h := ctx.BlockHeader()
	h.Height++
	h.Time = h.Time.Add(61 * time.Second)
	preRows := map[string]string{}
	for m, a := range d.avsAddr {
		preRows[m] = d.vpRows(ctx, a.String())
	}
	preTasks := d.taskRows(ctx)
	cc, write := ctx.WithBlockHeader(h).CacheContext()
	panicked := ""
	func() {
		defer func() {
			if r := recover(); r != nil {
				panicked = fmt.Sprint(r)
			}
		}()
		k.BeginBlocker(cc, abci.RequestBeginBlock{Header: h})
	}()
	if panicked != "" {
		d.halted = true
		line["ok"], line["panic"], line["cls"], line["err"], line["hdirty"] = false, true, "PANIC", "PANIC: "+panicked, false
		return
	}
	write()
	d.ctx = ctx.WithBlockHeader(h)
	vp := []map[string]interface{}{}
	for _, m := range []string{"a1", "a2"} {
		a := d.avsAddr[m].String()
		vp = append(vp, map[string]interface{}{"a": m, "pre": preRows[m], "post": d.vpRows(d.ctx, a), "want": d.vpWant(d.ctx, a)})
	}
	line["vp"] = vp
	postTasks := d.taskRows(d.ctx)
	tk := []map[string]interface{}{}
	var names []string
	for n := range postTasks {
		names = append(names, n)
	}
	sort.Strings(names)
	for _, n := range names {
		parts := strings.Split(n, "/")
		id, _ := strconv.Atoi(parts[1])
		tk = append(tk, map[string]interface{}{"t": parts[0], "id": id, "same": preTasks[n] == postTasks[n]})
	}
	line["tk"] = tk
	line["ok"], line["panic"], line["cls"], line["err"], line["hdirty"] = true, false, "ok", "", false
}

// ---------------------------------------------------------------------------------------------
// projection of the abstract state (spec/Atomic.tla: Genesis)

func (d *atomicDriver) minuteEpoch(ctx sdk.Context) int64 {
	for _, e := range d.w.App.EpochsKeeper.AllEpochInfos(ctx) {
		if e.Identifier == "minute" {
			return e.CurrentEpoch
		}
	}
	return -1
}

func (d *atomicDriver) keyModel(k keytypes.WrappedConsKey) string {
	if k == nil {
		return ""
	}
	for _, n := range atomicKeys {
		if WrappedKey(n).EqualsWrapped(k) {
			return n
		}
	}
	return "other"
}

func (d *atomicDriver) project() map[string]interface{} {
	k, ctx := d.w.App, d.ctx
	st := map[string]interface{}{"ep": d.minuteEpoch(ctx), "h": ctx.BlockHeight()}
	ops := []string{}
	for _, m := range atomicAccts {
		if k.OperatorKeeper.IsOperator(ctx, d.acct[m]) {
			ops = append(ops, m)
		}
	}
	st["ops"] = ops
	// AVS registry
	avs := []map[string]interface{}{}
	for _, m := range []string{"a1", "a2"} {
		info, err := k.AVSManagerKeeper.GetAVSInfo(ctx, d.avsAddr[m].String())
		if err != nil {
			continue
		}
		a := info.Info
		own := []string{}
		for _, o := range a.AvsOwnerAddress {
			own = append(own, d.acctM[o])
		}
		sort.Strings(own)
		al := "?"
		ids := append([]string{}, a.AssetIDs...)
		sort.Strings(ids)
		var ms []string
		for _, id := range ids {
			ms = append(ms, d.assetM[id])
		}
		sort.Strings(ms)
		switch strings.Join(ms, ",") {
		case "lst":
			al = "L"
		case "lst,nop":
			al = "N"
		case "bad":
			al = "B"
		}
		avs = append(avs, map[string]interface{}{"a": m, "own": own, "t": d.tModel[strings.ToLower(a.TaskAddr)], "eid": a.EpochIdentifier, "start": a.StartingEpoch,
			"unb": a.AvsUnbondingPeriod, "ms": a.MinSelfDelegation, "al": al, "name": a.Name})
	}
	st["avs"] = avs
	// opted info
	opt := []map[string]interface{}{}
	ois, _ := k.OperatorKeeper.GetAllOptedInfo(ctx)
	for _, oi := range ois {
		keys, err := assetstypes.ParseJoinedStoreKey([]byte(oi.Key), 2)
		if err != nil {
			continue
		}
		a, okA := d.avsModel[strings.ToLower(keys[1])]
		o, okO := d.acctM[keys[0]]
		if !okA || !okO {
			continue
		}
		s := "in"
		if oi.OptInfo.OptedOutHeight != operatortypes.DefaultOptedOutHeight {
			s = "out"
		}
		opt = append(opt, map[string]interface{}{"o": o, "a": a, "s": s})
	}
	st["opt"] = opt
	usd := []map[string]interface{}{}
	uvs, _ := k.OperatorKeeper.GetAllOperatorUSDValues(ctx)
	for _, uv := range uvs {
		keys, err := assetstypes.ParseJoinedStoreKey([]byte(uv.Key), 2)
		if err != nil {
			continue
		}
		a, okA := d.avsModel[strings.ToLower(keys[0])]
		o, okO := d.acctM[keys[1]]
		if !okA || !okO {
			continue
		}
		s := "set"
		v := uv.OptedUSDValue
		if v.SelfUSDValue.IsZero() && v.TotalUSDValue.IsZero() && v.ActiveUSDValue.IsZero() {
			s = "zero"
		}
		usd = append(usd, map[string]interface{}{"a": a, "o": o, "s": s})
	}
	st["usd"] = usd
	avsusd := map[string]string{}
	for _, m := range []string{"a1", "a2", "dog"} {
		v, err := k.OperatorKeeper.GetAVSUSDValue(ctx, d.avsHexOf(m))
		switch {
		case err != nil:
			avsusd[m] = "none"
		case v.IsPositive():
			avsusd[m] = "pos"
		default:
			avsusd[m] = "zero"
		}
	}
	st["avsusd"] = avsusd
	bls := []string{}
	for _, m := range atomicAccts {
		if _, err := k.AVSManagerKeeper.GetOperatorPubKey(ctx, d.acct[m].String()); err == nil {
			bls = append(bls, m)
		}
	}
	st["bls"] = bls
	astore := ctx.KVStore(k.GetKey(avstypes.StoreKey))
	tnum := map[string]uint64{"t1": 0, "t2": 0}
	it := sdk.KVStorePrefixIterator(prefix.NewStore(astore, avstypes.KeyPrefixLatestTaskNum), nil)
	for ; it.Valid(); it.Next() {
		if m, ok := d.tModel[strings.ToLower(common.BytesToAddress(it.Key()).String())]; ok {
			tnum[m] = sdk.BigEndianToUint64(it.Value())
		}
	}
	it.Close()
	st["tnum"] = tnum
	tasks := []map[string]interface{}{}
	k.AVSManagerKeeper.IterateTaskAVSInfo(ctx, func(_ int64, t avstypes.TaskInfo) bool {
		done := len(t.SignedOperators) > 0 || t.OperatorActivePower != nil
		tasks = append(tasks, map[string]interface{}{"t": d.tModel[strings.ToLower(t.TaskContractAddress)], "id": t.TaskId, "start": t.StartingEpoch, "resp": t.TaskResponsePeriod,
			"stat": t.TaskStatisticalPeriod, "chal": t.TaskChallengePeriod, "done": done})
		return false
	})
	st["tasks"] = tasks
	res := []map[string]interface{}{}
	k.AVSManagerKeeper.IterateResultInfo(ctx, func(_ int64, r avstypes.TaskResultInfo) bool {
		res = append(res, map[string]interface{}{"o": d.acctM[r.OperatorAddress], "t": d.tModel[strings.ToLower(r.TaskContractAddress)], "id": r.TaskId, "stage": r.Stage,
			"resp": respToken(r.TaskResponse, r.TaskId), "sig": d.sigTok(r.BlsSignature, d.acctM[r.OperatorAddress], r.TaskId)})
		return false
	})
	st["res"] = res
	chal := []map[string]interface{}{}
	it = sdk.KVStorePrefixIterator(prefix.NewStore(astore, avstypes.KeyPrefixTaskChallengeResult), nil)
	for ; it.Valid(); it.Next() {
		parts := strings.Split(string(it.Key()), "/")
		if len(parts) != 3 {
			continue
		}
		id, _ := strconv.ParseUint(parts[2], 10, 64)
		chal = append(chal, map[string]interface{}{"o": d.acctM[parts[0]], "t": d.tModel[strings.ToLower(parts[1])], "id": id})
	}
	it.Close()
	st["chal"] = chal
	chains := []int{}
	for _, c := range []uint64{101, 102, 103} {
		if k.AssetsKeeper.ClientChainExists(ctx, c) {
			chains = append(chains, int(c))
		}
	}
	st["chains"] = chains
	tokens, otok := []string{}, []string{}
	op := k.OracleKeeper.GetParams(ctx)
	for _, m := range []string{"lst", "nop", "new1", "new2"} {
		if k.AssetsKeeper.IsStakingAsset(ctx, d.asset[m]) {
			tokens = append(tokens, m)
		}
		if op.GetTokenIDFromAssetID(d.asset[m]) > 0 {
			otok = append(otok, m)
		}
	}
	st["tokens"], st["otok"] = tokens, otok
	// consensus keys of the chain AVS
	key, prev := map[string]string{}, map[string]string{}
	rmv := []string{}
	for _, m := range atomicAccts {
		_, ck := getConsKey(k.OperatorKeeper, ctx, d.acct[m], d.w.ChainIDNoRev)
		key[m] = d.keyModel(ck)
		found, pk, _ := k.OperatorKeeper.GetOperatorPrevConsKeyForChainID(ctx, d.acct[m], d.w.ChainIDNoRev)
		prev[m] = ""
		if found {
			prev[m] = d.keyModel(pk)
		}
		if k.OperatorKeeper.IsOperatorRemovingKeyFromChainID(ctx, d.acct[m], d.w.ChainIDNoRev) {
			rmv = append(rmv, m)
		}
	}
	rev := map[string]string{}
	for _, n := range atomicKeys {
		rev[n] = ""
		if found, op := k.OperatorKeeper.GetOperatorAddressForChainIDAndConsAddr(ctx, d.w.ChainIDNoRev, WrappedKey(n).ToConsAddr()); found {
			rev[n] = d.acctM[op.String()]
		}
	}
	st["key"], st["prev"], st["rmv"], st["rev"] = key, prev, rmv, rev
	d.projectSlash(st)
	return st
}

func getConsKey(ok operatorkeeper.Keeper, ctx sdk.Context, a sdk.AccAddress, chain string) (bool, keytypes.WrappedConsKey) {
	found, k, err := ok.GetOperatorConsKeyForChainID(ctx, a, chain)
	if err != nil {
		return false, nil
	}
	return found, k
}

var _ = bytes.Equal
