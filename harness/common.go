// Harness shared code: deterministic identities, parametrised genesis, full ExocoreApp on a
// MemDB (or goleveldb), canonical number formatting, trace writer.
//
// This package is compiled INTO the /repo module through `go build -overlay` (see
// tools/build.sh); it therefore always builds against /repo's current working tree.
package main

import (
	"bufio"
	"crypto/sha256"
	"encoding/hex"
	"encoding/json"
	"fmt"
	"math/big"
	"os"
	"sort"
	"strings"
	"time"

	sdkmath "cosmossdk.io/math"
	dbm "github.com/cometbft/cometbft-db"
	abci "github.com/cometbft/cometbft/abci/types"
	"github.com/cometbft/cometbft/crypto/tmhash"
	"github.com/cometbft/cometbft/libs/log"
	tmproto "github.com/cometbft/cometbft/proto/tendermint/types"
	"github.com/cosmos/cosmos-sdk/baseapp"
	"github.com/cosmos/cosmos-sdk/crypto/keys/ed25519"
	simtestutil "github.com/cosmos/cosmos-sdk/testutil/sims"
	sdk "github.com/cosmos/cosmos-sdk/types"
	authtypes "github.com/cosmos/cosmos-sdk/x/auth/types"
	banktypes "github.com/cosmos/cosmos-sdk/x/bank/types"
	stakingtypes "github.com/cosmos/cosmos-sdk/x/staking/types"
	"github.com/ethereum/go-ethereum/common"
	"github.com/ethereum/go-ethereum/common/hexutil"
	"github.com/evmos/evmos/v16/crypto/ethsecp256k1"
	"github.com/evmos/evmos/v16/encoding"
	evmostypes "github.com/evmos/evmos/v16/types"
	evmtypes "github.com/evmos/evmos/v16/x/evm/types"

	exocoreapp "github.com/ExocoreNetwork/exocore/app"
	keytypes "github.com/ExocoreNetwork/exocore/types/keys"
	"github.com/ExocoreNetwork/exocore/utils"
	assetstypes "github.com/ExocoreNetwork/exocore/x/assets/types"
	avstypes "github.com/ExocoreNetwork/exocore/x/avs/types"
	delegationtypes "github.com/ExocoreNetwork/exocore/x/delegation/types"
	dogfoodtypes "github.com/ExocoreNetwork/exocore/x/dogfood/types"
	epochstypes "github.com/ExocoreNetwork/exocore/x/epochs/types"
	distributiontypes "github.com/ExocoreNetwork/exocore/x/feedistribution/types"
	operatortypes "github.com/ExocoreNetwork/exocore/x/operator/types"
	oraclekeeper "github.com/ExocoreNetwork/exocore/x/oracle/keeper"
	oracletypes "github.com/ExocoreNetwork/exocore/x/oracle/types"
)

// ---------------------------------------------------------------------------------------------
// deterministic identities

func h256(label string) []byte { s := sha256.Sum256([]byte(label)); return s[:] }

// EthKey derives a secp256k1 key from a label (retrying on the negligible invalid case).
func EthKey(label string) *ethsecp256k1.PrivKey {
	for i := 0; ; i++ {
		k := &ethsecp256k1.PrivKey{Key: h256(fmt.Sprintf("%s#%d", label, i))}
		if _, err := k.ToECDSA(); err == nil {
			return k
		}
	}
}

func AddrOf(k *ethsecp256k1.PrivKey) common.Address {
	return common.BytesToAddress(k.PubKey().Address().Bytes())
}

// ConsKey derives an ed25519 consensus key from a label.
func ConsKey(label string) *ed25519.PrivKey {
	return ed25519.GenPrivKeyFromSecret([]byte(label))
}

func WrappedKey(label string) keytypes.WrappedConsKey {
	return keytypes.NewWrappedConsKeyFromSdkKey(ConsKey(label).PubKey())
}

// ---------------------------------------------------------------------------------------------
// canonical numbers: every amount is a decimal string (matches spec/Num under the override)

type Num struct{ b *big.Int }

func NI(i sdkmath.Int) Num {
	if i.IsNil() {
		return Num{big.NewInt(0)}
	}
	return Num{i.BigInt()}
}
func ND(d sdkmath.LegacyDec) Num {
	if d.IsNil() {
		return Num{big.NewInt(0)}
	}
	return Num{d.BigInt()}
}
func NB(b *big.Int) Num   { return Num{new(big.Int).Set(b)} }
func N64(i int64) Num     { return Num{big.NewInt(i)} }
func NU64(i uint64) Num   { return Num{new(big.Int).SetUint64(i)} }
func (n Num) String() string { return n.b.String() }
// amounts are always logged as decimal strings (see spec/Num.tla)
func (n Num) MarshalJSON() ([]byte, error) {
	if n.b == nil {
		return []byte(`"0"`), nil
	}
	return []byte(`"` + n.b.String() + `"`), nil
}

// ParseNum reads a JSON number or decimal string.
func ParseNum(raw json.RawMessage) (*big.Int, error) {
	s := strings.Trim(string(raw), `"`)
	b, ok := new(big.Int).SetString(s, 10)
	if !ok {
		return nil, fmt.Errorf("bad number %q", string(raw))
	}
	return b, nil
}

// ---------------------------------------------------------------------------------------------
// trace writer (ndjson)

type TraceWriter struct {
	f *os.File
	w *bufio.Writer
	n int
}

func NewTraceWriter(path string) *TraceWriter {
	f, err := os.Create(path)
	must(err)
	return &TraceWriter{f: f, w: bufio.NewWriterSize(f, 1<<20)}
}

func (t *TraceWriter) Emit(ev map[string]interface{}) {
	t.n++
	bz, err := json.Marshal(ev)
	must(err)
	t.w.Write(bz)
	t.w.WriteByte('\n')
}

func (t *TraceWriter) Close() { t.w.Flush(); t.f.Close() }

func must(err error) {
	if err != nil {
		panic(err)
	}
}

// ---------------------------------------------------------------------------------------------
// world / genesis

type AssetCfg struct {
	ID       string // model id: "lst", "lst2", "nst"
	Decimals uint32
	Price    string // oracle genesis price (integer string); "" = no price round stored
	PriceDec int32
	NST      bool
}

type ValCfg struct {
	Op    int   // index into operators (0-based)
	Power int64 // genesis power; self-delegated power*10^dec(asset0) of asset0 at price 1
}

type EpochCfg struct {
	ID       string
	Duration time.Duration
}

type GenCfg struct {
	ChainID      string
	NOperators   int
	NStakers     int
	Assets       []AssetCfg
	Validators   []ValCfg
	MaxVals      uint32
	MinSelf      int64
	EpochsUnbond uint32
	DogfoodEpoch string
	Epochs       []EpochCfg // extra/overridden epoch infos (duration)
	NativeFunds  string     // hua given to every staker / operator account
	DBDir        string     // "" = MemDB
	GenesisTime  time.Time
	OracleMut    func(p *oracletypes.Params, g *oracletypes.GenesisState)
	GenesisMut   func(w *World, gs map[string]json.RawMessage)
}

type World struct {
	Cfg GenCfg
	App *exocoreapp.ExocoreApp
	Ctx sdk.Context // deliver-state context of block 1 after BeginBlock (ctx-mode base)

	OpKeys   []*ethsecp256k1.PrivKey
	OpAddrs  []sdk.AccAddress
	StKeys   []*ethsecp256k1.PrivKey
	StAddrs  []common.Address
	ConsKeys map[string]*ed25519.PrivKey // label -> key ("k1"...)

	ClientChainLzID uint64
	AssetAddr       map[string]common.Address // model asset id -> client chain token address
	AssetID         map[string]string         // model asset id -> assetID ("0x.._0x65")
	AssetModel      map[string]string         // assetID -> model id
	StakerID        map[string]string         // model staker id ("s1") -> stakerID
	StakerModel     map[string]string
	OpModel         map[string]string // bech32 -> "o1"
	AvsAddr         string            // dogfood avs address
	ChainIDNoRev    string
	GenesisTime     time.Time
	Header          tmproto.Header
}

const LzID = 101

func (w *World) Op(model string) sdk.AccAddress {
	var i int
	fmt.Sscanf(model, "o%d", &i)
	return w.OpAddrs[i-1]
}
func (w *World) St(model string) common.Address {
	var i int
	fmt.Sscanf(model, "s%d", &i)
	return w.StAddrs[i-1]
}

func DefaultGenCfg() GenCfg {
	return GenCfg{
		ChainID:      utils.DefaultChainID,
		NOperators:   3,
		NStakers:     3,
		Assets:       []AssetCfg{{ID: "lst", Decimals: 6, Price: "1", PriceDec: 0}},
		Validators:   []ValCfg{{Op: 0, Power: 100}},
		MaxVals:      10,
		MinSelf:      0,
		EpochsUnbond: 2,
		DogfoodEpoch: "day",
		NativeFunds:  "1000000000000000000000",
		GenesisTime:  time.Date(2024, 1, 1, 0, 0, 0, 0, time.UTC),
	}
}

// NewWorld builds a full ExocoreApp, runs InitChain with a genesis derived from cfg and
// BeginBlock of block 1.
func NewWorld(cfg GenCfg) *World {
	oraclekeeper.ResetAggregatorContext()
	oraclekeeper.ResetCache()
	oraclekeeper.ResetAggregatorContextCheckTx()

	w := &World{Cfg: cfg, ConsKeys: map[string]*ed25519.PrivKey{}, ClientChainLzID: LzID,
		AssetAddr: map[string]common.Address{}, AssetID: map[string]string{}, AssetModel: map[string]string{},
		StakerID: map[string]string{}, StakerModel: map[string]string{}, OpModel: map[string]string{},
		GenesisTime: cfg.GenesisTime}

	var db dbm.DB = dbm.NewMemDB()
	if cfg.DBDir != "" {
		var err error
		db, err = dbm.NewGoLevelDB("application", cfg.DBDir)
		must(err)
	}
	app := NewApp(db, cfg.ChainID)
	w.App = app
	genesisState := exocoreapp.NewDefaultGenesisState(app.AppCodec())
	cdc := app.AppCodec()

	// identities
	var genAccs []authtypes.GenesisAccount
	var balances []banktypes.Balance
	funds, _ := sdkmath.NewIntFromString(cfg.NativeFunds)
	addAcc := func(k *ethsecp256k1.PrivKey) {
		base := authtypes.NewBaseAccount(sdk.AccAddress(k.PubKey().Address().Bytes()), k.PubKey(), 0, 0)
		genAccs = append(genAccs, &evmostypes.EthAccount{BaseAccount: base, CodeHash: common.BytesToHash(evmtypes.EmptyCodeHash).Hex()})
		balances = append(balances, banktypes.Balance{Address: base.GetAddress().String(), Coins: sdk.NewCoins(sdk.NewCoin(utils.BaseDenom, funds))})
	}
	// model ids follow store-key order: o1 < o2 < ... by bech32 string, s1 < s2 < ... by staker id
	opKeys := make([]*ethsecp256k1.PrivKey, cfg.NOperators)
	for i := range opKeys {
		opKeys[i] = EthKey(fmt.Sprintf("operator%d", i+1))
	}
	sort.Slice(opKeys, func(i, j int) bool {
		return sdk.AccAddress(opKeys[i].PubKey().Address().Bytes()).String() < sdk.AccAddress(opKeys[j].PubKey().Address().Bytes()).String()
	})
	stKeys := make([]*ethsecp256k1.PrivKey, cfg.NStakers)
	for i := range stKeys {
		stKeys[i] = EthKey(fmt.Sprintf("staker%d", i+1))
	}
	sort.Slice(stKeys, func(i, j int) bool {
		return strings.ToLower(AddrOf(stKeys[i]).String()) < strings.ToLower(AddrOf(stKeys[j]).String())
	})
	for i := 0; i < cfg.NOperators; i++ {
		k := opKeys[i]
		w.OpKeys = append(w.OpKeys, k)
		a := sdk.AccAddress(k.PubKey().Address().Bytes())
		w.OpAddrs = append(w.OpAddrs, a)
		w.OpModel[a.String()] = fmt.Sprintf("o%d", i+1)
		addAcc(k)
	}
	for i := 0; i < cfg.NStakers; i++ {
		k := stKeys[i]
		w.StKeys = append(w.StKeys, k)
		a := AddrOf(k)
		w.StAddrs = append(w.StAddrs, a)
		m := fmt.Sprintf("s%d", i+1)
		sid, _ := assetstypes.GetStakerIDAndAssetIDFromStr(LzID, a.String(), "")
		w.StakerID[m] = sid
		w.StakerModel[sid] = m
		// the same address seen as a native-chain staker
		nsid, _ := assetstypes.GetStakerIDAndAssetIDFromStr(assetstypes.ExocoreChainLzID, a.String(), "")
		w.StakerModel[nsid] = m
		addAcc(k)
	}
	// validators' self stakers: the operator address on the client chain (as in testutil)
	for i := range cfg.Validators {
		v := cfg.Validators[i]
		a := common.BytesToAddress(w.OpAddrs[v.Op].Bytes())
		sid, _ := assetstypes.GetStakerIDAndAssetIDFromStr(LzID, a.String(), "")
		m := fmt.Sprintf("v%d", v.Op+1)
		w.StakerID[m] = sid
		w.StakerModel[sid] = m
	}
	genesisState[authtypes.ModuleName] = cdc.MustMarshalJSON(authtypes.NewGenesisState(authtypes.DefaultParams(), genAccs))
	total := sdk.NewCoins()
	for _, b := range balances {
		total = total.Add(b.Coins...)
	}
	genesisState[banktypes.ModuleName] = cdc.MustMarshalJSON(banktypes.NewGenesisState(banktypes.DefaultParams(), balances, total, []banktypes.Metadata{}, []banktypes.SendEnabled{}))

	// assets
	clientChains := []assetstypes.ClientChainInfo{{Name: "ethereum", MetaInfo: "ethereum blockchain", ChainId: 1, FinalizationBlocks: 10, LayerZeroChainID: LzID, AddressLength: 20}}
	var tokens []assetstypes.StakingAssetInfo
	for i, a := range cfg.Assets {
		addr := common.BytesToAddress(h256("asset:" + a.ID)[:20])
		if a.NST {
			addr = common.HexToAddress("0xEeeeeEeeeEeEeeEeEeEeeEEEeeeeEeeeeeeeEEeE")
		}
		_, assetID := assetstypes.GetStakerIDAndAssetIDFromStr(LzID, "", addr.String())
		w.AssetAddr[a.ID] = addr
		w.AssetID[a.ID] = assetID
		w.AssetModel[assetID] = a.ID
		amt := sdkmath.ZeroInt()
		if i == 0 {
			for _, v := range cfg.Validators {
				amt = amt.Add(sdkmath.NewIntWithDecimal(v.Power, int(a.Decimals)))
			}
		}
		tokens = append(tokens, assetstypes.StakingAssetInfo{
			AssetBasicInfo:     assetstypes.AssetInfo{Name: "Token " + a.ID, Symbol: strings.ToUpper(a.ID), Address: addr.String(), Decimals: a.Decimals, LayerZeroChainID: LzID, MetaInfo: a.ID},
			StakingTotalAmount: amt,
		})
	}
	w.AssetID["nat"] = assetstypes.ExocoreAssetID
	w.AssetModel[assetstypes.ExocoreAssetID] = "nat"
	a0 := cfg.Assets[0]
	assetID0 := w.AssetID[a0.ID]
	var deposits []assetstypes.DepositsByStaker
	var opAssets []assetstypes.AssetsByOperator
	var delStates []delegationtypes.DelegationStates
	var assocs []delegationtypes.StakerToOperator
	var stakersByOp []delegationtypes.StakersByOperator
	for _, v := range cfg.Validators {
		amt := sdkmath.NewIntWithDecimal(v.Power, int(a0.Decimals))
		sid := w.StakerID[fmt.Sprintf("v%d", v.Op+1)]
		op := w.OpAddrs[v.Op].String()
		deposits = append(deposits, assetstypes.DepositsByStaker{StakerID: sid, Deposits: []assetstypes.DepositByAsset{{AssetID: assetID0, Info: assetstypes.StakerAssetInfo{TotalDepositAmount: amt, WithdrawableAmount: sdkmath.ZeroInt(), PendingUndelegationAmount: sdkmath.ZeroInt()}}}})
		opAssets = append(opAssets, assetstypes.AssetsByOperator{Operator: op, AssetsState: []assetstypes.AssetByID{{AssetID: assetID0, Info: assetstypes.OperatorAssetInfo{TotalAmount: amt, PendingUndelegationAmount: sdkmath.ZeroInt(), TotalShare: sdkmath.LegacyNewDecFromBigInt(amt.BigInt()), OperatorShare: sdkmath.LegacyNewDecFromBigInt(amt.BigInt())}}}})
		delStates = append(delStates, delegationtypes.DelegationStates{Key: string(assetstypes.GetJoinedStoreKey(sid, assetID0, op)), States: delegationtypes.DelegationAmounts{WaitUndelegationAmount: sdkmath.ZeroInt(), UndelegatableShare: sdkmath.LegacyNewDecFromBigInt(amt.BigInt())}})
		assocs = append(assocs, delegationtypes.StakerToOperator{Operator: op, StakerID: sid})
		stakersByOp = append(stakersByOp, delegationtypes.StakersByOperator{Key: string(assetstypes.GetJoinedStoreKey(op, assetID0)), Stakers: []string{sid}})
	}
	sort.Slice(deposits, func(i, j int) bool { return deposits[i].StakerID < deposits[j].StakerID })
	sort.Slice(opAssets, func(i, j int) bool { return opAssets[i].Operator < opAssets[j].Operator })
	genesisState[assetstypes.ModuleName] = cdc.MustMarshalJSON(assetstypes.NewGenesis(assetstypes.DefaultParams(), clientChains, tokens, deposits, opAssets))
	genesisState[delegationtypes.ModuleName] = cdc.MustMarshalJSON(delegationtypes.NewGenesis(assocs, delStates, stakersByOp, nil))

	// oracle: one token + feeder per asset (ids from 1), prices in genesis
	op := oracletypes.DefaultParams()
	op.Tokens = op.Tokens[:1]
	op.TokenFeeders = op.TokenFeeders[:1]
	og := oracletypes.NewGenesisState(op)
	for i, a := range cfg.Assets {
		op.Tokens = append(op.Tokens, &oracletypes.Token{Name: strings.ToUpper(a.ID), ChainID: 1, ContractAddress: "0x", Decimal: a.PriceDec, Active: true, AssetID: w.AssetID[a.ID]})
		op.TokenFeeders = append(op.TokenFeeders, &oracletypes.TokenFeeder{TokenID: uint64(i + 1), RuleID: 1, StartRoundID: 1, StartBaseBlock: 1000000, Interval: 10})
		if a.Price != "" {
			og.PricesList = append(og.PricesList, oracletypes.Prices{TokenID: uint64(i + 1), NextRoundID: 2, PriceList: []*oracletypes.PriceTimeRound{{Price: a.Price, Decimal: a.PriceDec, RoundID: 1}}})
		}
	}
	og.Params = op
	if cfg.OracleMut != nil {
		cfg.OracleMut(&og.Params, og)
	}
	genesisState[oracletypes.ModuleName] = cdc.MustMarshalJSON(og)

	// operators
	var opInfos []operatortypes.OperatorDetail
	for i, a := range w.OpAddrs {
		opInfos = append(opInfos, operatortypes.OperatorDetail{OperatorAddress: a.String(), OperatorInfo: operatortypes.OperatorInfo{EarningsAddr: a.String(), OperatorMetaInfo: fmt.Sprintf("operator%d", i+1), Commission: stakingtypes.NewCommission(sdk.ZeroDec(), sdk.ZeroDec(), sdk.ZeroDec())}})
	}
	w.ChainIDNoRev = avstypes.ChainIDWithoutRevision(cfg.ChainID)
	w.AvsAddr = avstypes.GenerateAVSAddr(w.ChainIDNoRev)
	var consRecs []operatortypes.OperatorConsKeyRecord
	var optStates []operatortypes.OptedState
	var usdVals []operatortypes.OperatorUSDValue
	var gvals []dogfoodtypes.GenesisValidator
	totalPower := int64(0)
	avsTotal := sdkmath.LegacyZeroDec()
	for _, v := range cfg.Validators {
		label := fmt.Sprintf("k%d", v.Op+1)
		ck := ConsKey(label)
		w.ConsKeys[label] = ck
		wk := keytypes.NewWrappedConsKeyFromSdkKey(ck.PubKey())
		opS := w.OpAddrs[v.Op].String()
		consRecs = append(consRecs, operatortypes.OperatorConsKeyRecord{OperatorAddress: opS, Chains: []operatortypes.ChainDetails{{ChainID: w.ChainIDNoRev, ConsensusKey: wk.ToHex()}}})
		optStates = append(optStates, operatortypes.OptedState{Key: string(assetstypes.GetJoinedStoreKey(opS, w.AvsAddr)), OptInfo: operatortypes.OptedInfo{OptedInHeight: 1, OptedOutHeight: operatortypes.DefaultOptedOutHeight}})
		val := sdkmath.LegacyNewDec(v.Power)
		usdVals = append(usdVals, operatortypes.OperatorUSDValue{Key: string(assetstypes.GetJoinedStoreKey(w.AvsAddr, opS)), OptedUSDValue: operatortypes.OperatorOptedUSDValue{SelfUSDValue: val, TotalUSDValue: val, ActiveUSDValue: val}})
		gvals = append(gvals, dogfoodtypes.GenesisValidator{PublicKey: wk.ToHex(), Power: v.Power})
		totalPower += v.Power
		avsTotal = avsTotal.Add(val)
	}
	sort.Slice(consRecs, func(i, j int) bool { return consRecs[i].OperatorAddress < consRecs[j].OperatorAddress })
	avsVals := []operatortypes.AVSUSDValue{{AVSAddr: w.AvsAddr, Value: operatortypes.DecValueField{Amount: avsTotal}}}
	genesisState[operatortypes.ModuleName] = cdc.MustMarshalJSON(operatortypes.NewGenesisState(opInfos, consRecs, optStates, usdVals, avsVals, nil, nil, nil))

	// epochs
	if len(cfg.Epochs) > 0 {
		eg := epochstypes.DefaultGenesis()
		for _, e := range cfg.Epochs {
			found := false
			for i := range eg.Epochs {
				if eg.Epochs[i].Identifier == e.ID {
					eg.Epochs[i].Duration = e.Duration
					found = true
				}
			}
			if !found {
				eg.Epochs = append(eg.Epochs, epochstypes.NewGenesisEpochInfo(e.ID, e.Duration))
			}
		}
		genesisState[epochstypes.ModuleName] = cdc.MustMarshalJSON(eg)
	}

	// dogfood
	dp := dogfoodtypes.DefaultParams()
	dp.MaxValidators = cfg.MaxVals
	dp.EpochsUntilUnbonded = cfg.EpochsUnbond
	dp.EpochIdentifier = cfg.DogfoodEpoch
	dp.MinSelfDelegation = sdkmath.NewInt(cfg.MinSelf)
	var aids []string
	for _, a := range cfg.Assets {
		aids = append(aids, w.AssetID[a.ID])
	}
	dp.AssetIDs = aids
	genesisState[dogfoodtypes.ModuleName] = cdc.MustMarshalJSON(dogfoodtypes.NewGenesis(dp, gvals, nil, nil, nil, sdkmath.NewInt(totalPower)))
	genesisState[distributiontypes.ModuleName] = cdc.MustMarshalJSON(distributiontypes.NewGenesisState(distributiontypes.DefaultParams()))

	if cfg.GenesisMut != nil {
		cfg.GenesisMut(w, genesisState)
	}
	stateBytes, err := json.MarshalIndent(genesisState, "", " ")
	must(err)
	app.InitChain(abci.RequestInitChain{Time: cfg.GenesisTime, ChainId: cfg.ChainID, Validators: []abci.ValidatorUpdate{}, ConsensusParams: exocoreapp.DefaultConsensusParams, AppStateBytes: stateBytes})

	var proposer sdk.ConsAddress
	if len(cfg.Validators) > 0 {
		proposer = sdk.ConsAddress(w.ConsKeys[fmt.Sprintf("k%d", cfg.Validators[0].Op+1)].PubKey().Address())
	}
	w.Header = tmproto.Header{Height: 1, Time: cfg.GenesisTime.Add(time.Second), ChainID: cfg.ChainID, ProposerAddress: proposer,
		AppHash: tmhash.Sum([]byte("App")), ValidatorsHash: tmhash.Sum([]byte("Validators")), NextValidatorsHash: tmhash.Sum([]byte("Validators"))}
	app.BeginBlock(abci.RequestBeginBlock{Header: w.Header})
	w.Ctx = app.BaseApp.NewContext(false, w.Header)
	return w
}

func NewApp(db dbm.DB, chainID string) *exocoreapp.ExocoreApp {
	cfg := encoding.MakeConfig(exocoreapp.ModuleBasics)
	return exocoreapp.NewExocoreApp(log.NewNopLogger(), db, nil, true, map[int64]bool{}, exocoreapp.DefaultNodeHome, 5, cfg,
		simtestutil.NewAppOptionsWithFlagHome(exocoreapp.DefaultNodeHome), baseapp.SetChainID(chainID))
}

func hexOf(b []byte) string { return hex.EncodeToString(b) }

var _ = hexutil.Encode
