// Liveness family driver (C11): executes hazard scripts generated from spec/MC_Liveness.tla with
// REAL ABCI calls (BeginBlock / EndBlock / Commit on a fresh full app per behaviour) and records one
// line per block phase with a `panic` flag. baseapp recovers panics only inside DeliverTx; a panic
// in BeginBlock, EndBlock or Commit stops a real node, so it is recorded as a halt.
package main

import (
	"bytes"
	"encoding/json"
	"flag"
	"fmt"
	"math/big"
	"time"

	sdkmath "cosmossdk.io/math"
	abci "github.com/cometbft/cometbft/abci/types"
	tmproto "github.com/cometbft/cometbft/proto/tendermint/types"
	sdk "github.com/cosmos/cosmos-sdk/types"
	"github.com/ethereum/go-ethereum/common"

	assetskeeper "github.com/ExocoreNetwork/exocore/x/assets/keeper"
	assetstypes "github.com/ExocoreNetwork/exocore/x/assets/types"
	delegationtypes "github.com/ExocoreNetwork/exocore/x/delegation/types"
)

type liveDriver struct {
	w       *World
	tw      *TraceWriter
	header  tmproto.Header
	ctx     sdk.Context // deliver-state context of the open block
	open    bool        // BeginBlock done, EndBlock pending
	halted  bool
	absent  map[string]bool // operators whose validator does not sign
	pending []abci.Misbehavior
	nonce   uint64
	vals    map[string]int64 // cons label -> power as told to consensus
}

func runLiveness(args []string) int {
	fs := flag.NewFlagSet("liveness", flag.ExitOnError)
	in := fs.String("in", "", "behaviours")
	out := fs.String("out", "", "trace")
	fs.Int64("seed", 1, "seed")
	fs.Parse(args)
	tw := NewTraceWriter(*out)
	defer tw.Close()
	behs := ReadBehaviours(*in)
	for bi, b := range behs {
		gc := DefaultGenCfg()
		gc.NOperators = 3
		gc.NStakers = 2
		gc.Assets = []AssetCfg{{ID: "lst", Decimals: 0, Price: "1", PriceDec: 0}}
		gc.Validators = []ValCfg{{Op: 0, Power: 100}, {Op: 1, Power: 100}}
		gc.DogfoodEpoch = "minute"
		gc.EpochsUnbond = 1
		d := &liveDriver{tw: tw, absent: map[string]bool{}, vals: map[string]int64{"k1": 100, "k2": 100}}
		ok := true
		func() {
			defer func() {
				if r := recover(); r != nil {
					ok = false
					tw.Emit(map[string]interface{}{"ev": "reset", "b": bi, "setupPanic": fmt.Sprint(r)})
				}
			}()
			d.w = NewWorld(gc)
		}()
		if !ok {
			continue
		}
		d.header = d.w.Header
		d.ctx = d.w.Ctx
		d.open = true
		tw.Emit(map[string]interface{}{"ev": "reset", "b": bi, "h": d.header.Height})
		for _, e := range b {
			if d.halted {
				break
			}
			d.exec(e)
		}
		// progress: three further empty blocks must be processed
		for i := 0; i < 3 && !d.halted; i++ {
			d.block(time.Second, "tail")
		}
		tw.Emit(map[string]interface{}{"ev": "end", "halted": d.halted, "h": d.header.Height})
	}
	fmt.Printf("liveness: behaviours=%d events=%d\n", len(behs), tw.n)
	return 0
}

func init() { commands["liveness"] = runLiveness }

func (d *liveDriver) phase(name string, why string, f func()) bool {
	panicked := ""
	func() {
		defer func() {
			if r := recover(); r != nil {
				panicked = fmt.Sprint(r)
			}
		}()
		f()
	}()
	ev := map[string]interface{}{"ev": name, "h": d.header.Height, "why": why, "panic": panicked != ""}
	if panicked != "" {
		ev["err"] = panicked
		d.halted = true
	}
	d.tw.Emit(ev)
	return panicked == ""
}

// block closes the open block (EndBlock, Commit) and opens the next one (BeginBlock) dt later
func (d *liveDriver) block(dt time.Duration, why string) {
	app := d.w.App
	if d.open {
		var res abci.ResponseEndBlock
		if !d.phase("EndBlock", why, func() { res = app.EndBlock(abci.RequestEndBlock{Height: d.header.Height}) }) {
			return
		}
		for _, u := range res.ValidatorUpdates {
			for label, k := range d.w.ConsKeys {
				if bytes.Equal(k.PubKey().Bytes(), u.PubKey.GetEd25519()) {
					if u.Power == 0 {
						delete(d.vals, label)
					} else {
						d.vals[label] = u.Power
					}
				}
			}
		}
		if !d.phase("Commit", why, func() { app.Commit() }) {
			return
		}
		d.open = false
	}
	d.header.Height++
	d.header.Time = d.header.Time.Add(dt)
	d.header.AppHash = app.LastCommitID().Hash
	var votes []abci.VoteInfo
	for label, p := range d.vals {
		var i int
		fmt.Sscanf(label, "k%d", &i)
		votes = append(votes, abci.VoteInfo{Validator: abci.Validator{Address: d.w.ConsKeys[label].PubKey().Address(), Power: p}, SignedLastBlock: !d.absent[fmt.Sprintf("o%d", i)]})
	}
	req := abci.RequestBeginBlock{Header: d.header, LastCommitInfo: abci.CommitInfo{Votes: votes}, ByzantineValidators: d.pending}
	d.pending = nil
	if !d.phase("BeginBlock", why, func() { app.BeginBlock(req) }) {
		return
	}
	d.ctx = app.BaseApp.NewContext(false, d.header)
	d.open = true
}

func (d *liveDriver) exec(e BEvent) {
	w := d.w
	k := w.App
	switch e.Ev {
	case "Stake":
		s, o, cls := e.str("s"), e.str("o"), e.str("cls")
		amt := amountClass(cls)
		args := map[string]interface{}{"s": s, "o": o, "cls": cls, "x": NI(amt)}
		err := d.call(func(ctx sdk.Context) error {
			if err := k.AssetsKeeper.PerformDepositOrWithdraw(ctx, &assetskeeper.DepositWithdrawParams{ClientChainLzID: LzID, Action: assetstypes.DepositLST, AssetsAddress: w.AssetAddr["lst"].Bytes(), StakerAddress: w.St(s).Bytes(), OpAmount: amt}); err != nil {
				return err
			}
			return k.DelegationKeeper.DelegateTo(ctx, &delegationtypes.DelegationOrUndelegationParams{ClientChainID: LzID, Action: assetstypes.DelegateTo, AssetsAddress: w.AssetAddr["lst"].Bytes(), OperatorAddress: w.Op(o), StakerAddress: w.St(s).Bytes(), OpAmount: amt})
		})
		d.emitTx("Stake", args, err)
	case "Unstake":
		s, o := e.str("s"), e.str("o")
		var staker []byte
		var sid string
		if s == "self" {
			staker = common.BytesToAddress(w.Op(o).Bytes()).Bytes()
			sid, _ = assetstypes.GetStakerIDAndAssetIDFromStr(LzID, common.BytesToAddress(staker).String(), "")
		} else {
			staker = w.St(s).Bytes()
			sid = w.StakerID[s]
		}
		amounts, _ := k.DelegationKeeper.AllDelegatedInfoForStakerAsset(d.ctx, sid, w.AssetID["lst"])
		amt := amounts[w.Op(o).String()]
		if amt.IsNil() {
			amt = sdkmath.ZeroInt()
		}
		if keep := e.big("keep"); keep.Sign() > 0 && amt.GT(sdkmath.NewIntFromBigInt(keep)) {
			amt = amt.Sub(sdkmath.NewIntFromBigInt(keep))
		}
		d.nonce++
		args := map[string]interface{}{"s": s, "o": o, "x": NI(amt)}
		err := d.call(func(ctx sdk.Context) error {
			return k.DelegationKeeper.UndelegateFrom(ctx, &delegationtypes.DelegationOrUndelegationParams{ClientChainID: LzID, Action: assetstypes.UndelegateFrom, AssetsAddress: w.AssetAddr["lst"].Bytes(), OperatorAddress: w.Op(o), StakerAddress: staker, OpAmount: amt, LzNonce: d.nonce, TxHash: txHashOf(fmt.Sprintf("t%d", d.nonce))})
		})
		d.emitTx("Unstake", args, err)
	case "Blocks":
		n := int(e.big("n").Int64())
		for i := 0; i < n && !d.halted; i++ {
			d.block(time.Second, "Blocks")
		}
	case "EpochEnd":
		d.block(61*time.Second, "EpochEnd")
	case "Absent":
		d.absent[e.str("o")] = e.str("on") == "1"
		d.tw.Emit(map[string]interface{}{"ev": "Absent", "a": map[string]interface{}{"o": e.str("o"), "on": e.str("on")}, "panic": false})
	case "Evidence":
		o := e.str("o")
		var i int
		fmt.Sscanf(o, "o%d", &i)
		label := fmt.Sprintf("k%d", i)
		age := e.big("age").Int64()
		h := d.header.Height - age
		if h < 1 {
			h = 1
		}
		pw := e.big("power").Int64()
		d.pending = append(d.pending, abci.Misbehavior{Type: abci.MisbehaviorType_DUPLICATE_VOTE, Validator: abci.Validator{Address: w.ConsKeys[label].PubKey().Address(), Power: pw},
			Height: h, Time: d.header.Time.Add(-time.Duration(age) * time.Second), TotalVotingPower: 200})
		d.tw.Emit(map[string]interface{}{"ev": "Evidence", "a": map[string]interface{}{"o": o, "infr": h, "power": pw}, "panic": false})
		d.block(time.Second, "Evidence")
	}
}

func (d *liveDriver) call(f func(ctx sdk.Context) error) (err error) {
	defer func() {
		if r := recover(); r != nil {
			err = fmt.Errorf("PANIC: %v", r)
		}
	}()
	cc, write := d.ctx.CacheContext() // what baseapp does for a tx: discard on error or panic
	if e := f(cc); e != nil {
		return e
	}
	write()
	return nil
}

func (d *liveDriver) emitTx(name string, args map[string]interface{}, err error) {
	ev := map[string]interface{}{"ev": name, "a": args, "ok": err == nil, "panic": false, "h": d.header.Height}
	if err != nil {
		ev["err"] = err.Error()
	}
	d.tw.Emit(ev)
}

func amountClass(cls string) sdkmath.Int {
	switch cls {
	case "one":
		return sdkmath.NewInt(1)
	case "mid":
		return sdkmath.NewInt(1000)
	case "big":
		return sdkmath.NewIntFromBigInt(new(big.Int).Exp(big.NewInt(10), big.NewInt(30), nil))
	case "vast": // 10^75: fits 256 bits, and its Dec form still fits LegacyDec's 315 bits
		return sdkmath.NewIntFromBigInt(new(big.Int).Exp(big.NewInt(10), big.NewInt(75), nil))
	case "huge":
		return sdkmath.NewIntFromBigInt(new(big.Int).Sub(new(big.Int).Lsh(big.NewInt(1), 255), big.NewInt(1)))
	}
	return sdkmath.NewInt(10)
}

var _ = json.Marshal
